"""C06 -- non-interference (scenario `alias-hunt`).

Tasks keep and reuse everything: after each pure operation the result joins the
pool with a new owner; later steps mutate results *and* sources in
scheduler-chosen interleavings.  Oracle: the write-set monitor -- a pure step
changes nothing, a mutating step changes only its target.  It compares
observations, so legal sharing (quantity functions, unfilled templates) cannot
trip it.
"""
from .. import observe, spec as specmod
from .pool import PoolScenario, check_writeset, hashes, snapshot_docs

PURE = ("add", "mul", "zero", "copy", "read", "scribble", "ship", "new")


class C06(PoolScenario):
    prop = "C06"
    level = "exploration"
    profiles = ["alias-hunt", "defaults"]
    budgets = {"quick": 16000, "thorough": 300000}
    wall_caps = {"quick": 110, "thorough": 1500}
    ops = {"new": 1, "fill": 9, "fillnumpy": 3, "add": 5, "mul": 2.5, "zero": 1.5, "copy": 3, "read": 2, "scribble": 0.7,
           "iadd": 2.5, "drop": 0.3}
    wires = ["pickle"]
    rule = ("one run = one history over a pool in which every result of a pure operation (a+b, a*f, f*a, zero, copy, "
            "toJson, ==, hash, repr, accessors) joins the pool and both results and sources keep being mutated (fill, "
            "fill.numpy, +=) in seeded interleavings; profile 'defaults' builds trees that rely on default arguments. "
            "Non-trivial: >= 2 derivations followed by >= 2 mutations of a derived object or of its source. Distinct: "
            "hash of (tree shapes, schedule shape).")
    assumptions = ["observation = normalised toJson(): sharing that is not observable through it is not flagged",
                   "+= on operands that share state because of an earlier alias is reported once, at the first "
                   "observable change"]
    expected_faults = ["alias_mutation"]
    expected_probes = ["mutation_after_derivation", "default_argument_tree"]

    def gen_workload(self, rng, tier, profile):
        self.spec_opts = {"p_default": 0.8} if profile == "defaults" else {}
        return super().gen_workload(rng, tier, profile)

    def run(self, case, w, R):
        R["shape"] = "|".join(specmod.shape_key(s) for s in case["specs"])
        derived = 0
        mut_after = 0
        if any(v is None for s in case["specs"] for _, sp in specmod.walk(s) for k, v in sp.items() if k in ("value", "cut", "nanflow", "underflow", "overflow")):
            w.bump("probe_default_argument_tree")
        before = snapshot_docs(w)
        for si, st in enumerate(case["steps"]):
            o, writes = self.apply(w, st, si)
            op = st["op"]
            after = snapshot_docs(w)
            if o is not None:
                if not o.ok:
                    w.bump("probe_op_failed_" + op)
                    # a failed += may leave its target half-merged (C10's business): it stays in the write set
                if op in ("add", "mul", "zero", "copy") and o.ok:
                    derived += 1
                if op in ("fill", "fillnumpy", "iadd") and derived:
                    mut_after += 1
                    w.bump("fault_alias_mutation")
                    w.bump("probe_mutation_after_derivation")
                check_writeset(self, w, before, after, writes, st, si)
            w.record_step(st, hashes(after))
            before = after
        R["nontrivial"] = derived >= 2 and mut_after >= 2
        R["units"] = len(case["steps"])


SCENARIO = C06()
