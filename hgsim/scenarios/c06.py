"""C06 -- non-interference (scenario `alias-hunt`).

Tasks keep and reuse everything: after each pure operation the result joins the
pool with a new owner; later steps mutate results *and* sources in
scheduler-chosen interleavings.  Oracle: the write-set monitor -- a pure step
changes nothing, a mutating step changes only its target.  It compares
observations, so legal sharing (quantity functions, unfilled templates) cannot
trip it.
"""
from .. import gate, observe, spec as specmod
from ..kernel import call, make_box
from .pool import PoolScenario, check_writeset, hashes, snapshot_docs

DF_CTORS = {
    "Select": lambda df: df.hg_Select("b"),
    "Fraction": lambda df: df.hg_Fraction("b"),
    "Categorize": lambda df: df.hg_Categorize("s"),
    "Bin": lambda df: df.hg_Bin(4, -2.0, 2.0, "x"),
    "SparselyBin": lambda df: df.hg_SparselyBin(0.5, "x"),
    "CentrallyBin": lambda df: df.hg_CentrallyBin([-1.0, 0.0, 1.5], "x"),
    "IrregularlyBin": lambda df: df.hg_IrregularlyBin([-1.0, 0.5], "x"),
    "Stack": lambda df: df.hg_Stack([-1.0, 0.5], "x"),
    "Histogram": lambda df: df.hg_Histogram(4, -2.0, 2.0, "x"),
    "SparselyHistogram": lambda df: df.hg_SparselyHistogram(0.5, "x"),
    "SelectBin": lambda df: df.hg_Select("b", __import__("histogrammar").Bin(2, 0.0, 2.0, "y")),
    # two-dimensional histograms: their specialised classes offer projections (read accessors that return aggregators)
    "Sparse2D": lambda df: df.hg_SparselyBin(0.5, "x", __import__("histogrammar").SparselyBin(1.0, "y")),
    "Bin2D": lambda df: df.hg_Bin(4, -2.0, 2.0, "x", __import__("histogrammar").Bin(3, -1.0, 2.0, "y")),
    "Irr2D": lambda df: df.hg_IrregularlyBin([-1.0, 0.5], "x", __import__("histogrammar").IrregularlyBin([0.0, 1.0], "y")),
}

PURE = ("add", "mul", "zero", "copy", "read", "scribble", "ship", "new", "immutable")


class C06(PoolScenario):
    prop = "C06"
    level = "exploration"
    profiles = ["alias-hunt", "defaults", "alias-hunt", "accessors", "templates"]
    budgets = {"quick": 16000, "thorough": 300000}
    wall_caps = {"quick": 110, "thorough": 1500}
    ops = {"new": 1, "fill": 9, "fillnumpy": 3, "add": 5, "mul": 2.5, "zero": 1.5, "copy": 3, "read": 2, "scribble": 0.7,
           "iadd": 2.5, "drop": 0.3, "ship": 1.5, "immutable": 1.0}
    wires = ["pickle", "json", "jsonstr", "file"]
    fill_reloaded_too = True
    rule = ("one run = one history over a pool in which every result of a pure operation (a+b, a*f, f*a, zero, copy, "
            "toJson, ==, hash, repr, accessors) joins the pool and both results and sources keep being mutated (fill, "
            "fill.numpy, +=) in seeded interleavings; profile 'defaults' builds trees that rely on default arguments. "
            "Non-trivial: >= 2 derivations followed by >= 2 mutations of a derived object or of its source. Distinct: "
            "hash of (tree shapes, schedule shape).")
    assumptions = ["observation = normalised toJson(): sharing that is not observable through it is not flagged",
                   "+= on operands that share state because of an earlier alias is reported once, at the first "
                   "observable change"]
    expected_faults = ["alias_mutation"]
    expected_probes = ["mutation_after_derivation", "default_argument_tree", "accessor_ctor", "default_quantity_bystander", "template_reused",
                       "template_prefilled", "fill_after_template_reuse", "quantity_rewrapped", "projection_accessor"]

    def gen_workload(self, rng, tier, profile):
        self.spec_opts = {"p_default": 0.8} if profile == "defaults" else {}
        return super().gen_workload(rng, tier, profile)

    def generate(self, rng, tier, profile):
        case = super().generate(rng, tier, profile)
        sb = rng.fork("bystanders")
        kinds = ["Sum", "Maximize", "Minimize", "Average", "Deviate", "Bin", "Bag", "Categorize", "SparselyBin", "Select", "Fraction", "Stack",
                 "CentrallyBin", "Count"]
        for i in range(sb.randint(0, 3)):
            case["steps"].insert(sb.randint(0, max(0, len(case["steps"]) // 2)),
                                 {"op": "bystander", "kind": sb.pick(kinds), "out": 2000 + i, "actor": "T9", "t": 0})
        # a quantity wrapper taken from a live aggregator is wrapped again (named / cached / serializable) for a new one
        sq = rng.fork("rewrap")
        for i in range(sq.randint(0, 3)):
            case["steps"].insert(sq.randint(2, max(2, len(case["steps"]))),
                                 {"op": "rewrap", "obj": sq.randint(1, 6), "qi": sq.randrange(8), "how": sq.pick(["named", "named", "cached", "named-cached", "cached-named",
                                                                                                              "serializable", "named-serializable"]),
                                  "ctor": sq.pick(["Sum", "Bin", "Average", "Select", "Categorize"]), "out": 2500 + i, "actor": "T8", "t": 0})
        if profile == "templates":
            # one user-owned object handed as a template (value / flows / nanflow) to several separate constructor calls
            s = rng.fork("templates")
            n = len(case["records"])
            topts = specmod.merge_opts(depth=2, max_nodes=4, max_coll=2, max_num=3, qkinds=[("lambda", 1)])
            steps = case["steps"]
            nh = 3000
            for ti in range(s.randint(1, 2)):
                tspec = specmod.gen_spec(s, topts)
                nh += 1
                th = nh
                seq = [{"op": "template", "tspec": tspec, "out": th, "prefill": [[s.randrange(n), s.pick(specmod.POS_WEIGHTS)] for _ in range(s.pick([0, 0, 1, 3]))],
                        "actor": "T7", "t": 0}]
                hs = [th]
                for _ in range(s.randint(2, 3)):
                    nh += 1
                    kind = s.pick(["Bin", "Bin", "SparselyBin", "CentrallyBin", "IrregularlyBin", "Stack", "Fraction", "Categorize"])
                    slots = {"Bin": ["value", "underflow", "overflow", "nanflow"], "Fraction": ["value"], "Categorize": ["value"]}.get(kind, ["value", "nanflow"])
                    seq.append({"op": "holder", "kind": kind, "slots": sorted(s.sample(slots, s.randint(1, len(slots)))), "tpl": th, "out": nh, "actor": "T7", "t": 0})
                    hs.append(nh)
                for _ in range(s.randint(2, 8)):
                    seq.append({"op": "fill", "obj": s.pick(hs), "rec": s.randrange(n), "w": specmod.enc_float(s.pick(specmod.POS_WEIGHTS)), "actor": "T7", "t": 0,
                                "after_template": True})
                pos = s.randint(0, len(steps))
                # keep the sequence in order, spread over the history
                for e in seq:
                    pos = s.randint(pos, len(steps))
                    steps.insert(pos, e)
                    pos += 1
        if profile == "accessors":
            # DataFrame accessors (df.hg_Select(q), df.hg_Bin(...)) build aggregators that rely on default arguments
            s = rng.fork("accessors")
            n = len(case["records"])
            nh = 1000
            extra = []
            for i in range(s.randint(3, 10)):
                nh += 1
                extra.append({"op": "df_ctor", "kind": s.pick(sorted(DF_CTORS)), "rows": [s.randrange(n) for _ in range(s.randint(0, 6))],
                              "out": nh, "actor": s.pick(self.owners), "t": 1000 + i})
            # projections of whatever two-dimensional histogram is around, later fills of projection and source
            for i in range(s.randint(1, 4)):
                nh += 1
                extra.append({"op": "project", "obj": s.randint(0, 12), "which": s.pick(["x", "y", "y", "histogram", "histogram"]), "out": nh,
                              "actor": s.pick(self.owners), "t": 2000 + i})
            for i in range(s.randint(1, 6)):
                extra.append({"op": "fillnumpy", "obj": 1001 + s.randrange(max(1, nh - 1000)), "rows": [s.randrange(n) for _ in range(s.randint(1, 4))], "weights": "one",
                              "box": "frame", "actor": s.pick(self.owners), "t": 3000 + i, "any_tree": True})
            # interleave with the pool history
            steps = case["steps"]
            for e in extra:
                steps.insert(s.randint(0, len(steps)), e)
        return case

    def apply_special(self, w, st, si):
        if st["op"] == "bystander":
            # aggregators built by separate constructor calls that rely on the *default quantity*: they are never touched
            # again, so the write-set monitor sees any state they share with the rest of the pool (names included)
            import histogrammar as hg

            mk = {"Sum": lambda: hg.Sum(), "Maximize": lambda: hg.Maximize(), "Minimize": lambda: hg.Minimize(), "Average": lambda: hg.Average(),
                  "Deviate": lambda: hg.Deviate(), "Bin": lambda: hg.Bin(2, 0.0, 1.0), "Bag": lambda: hg.Bag(), "Categorize": lambda: hg.Categorize(),
                  "SparselyBin": lambda: hg.SparselyBin(1.0), "Select": lambda: hg.Select(), "Fraction": lambda: hg.Fraction(),
                  "Stack": lambda: hg.Stack([0.0]), "CentrallyBin": lambda: hg.CentrallyBin([0.0, 1.0]), "Count": lambda: hg.Count()}[st["kind"]]
            o = call(mk)
            if o.ok:
                w.put(st["out"], o.value, k=-1, via="ctor", mut=True)
                w.bump("probe_default_quantity_bystander")
            return o, set()
        if st["op"] == "project":
            from .pool import _walk_objs

            hs = sorted(w.heap)
            if not hs:
                return None, set()
            src = w.heap[hs[st["obj"] % len(hs)]]
            name = "histogram" if st["which"] == "histogram" else "project_on_" + st["which"]
            def offers(n_):
                # the projections are mix-in methods of the classes specialize() swaps in (Select forwards unknown
                # attributes to its cut and answers KeyError for the rest: not an accessor)
                return any(name in vars(c) for c in type(n_).__mro__)

            node = next((n_ for n_, _, _ in _walk_objs(src) if offers(n_)), None)
            if node is None:
                return None, set()
            o = call(getattr(node, name))
            if o.ok and hasattr(o.value, "toJson"):
                w.put(st["out"], o.value, k=-1, via="accessor", mut=True)
                w.bump("probe_projection_accessor")
            return o, set()
        if st["op"] == "template":
            o = call(specmod.build, st["tspec"])
            if o.ok:
                for i, wt in st.get("prefill", []):
                    if i < len(w.records) and call(o.value.fill, w.records[i], wt).ok:
                        w.bump("probe_template_prefilled")
                w.put(st["out"], o.value, k=-1, via="ctor", mut=True)
            return o, set()
        if st["op"] == "holder":
            if not w.has(st["tpl"]):
                return None, set()
            import histogrammar as hg

            T = w.heap[st["tpl"]]
            q = gate.make_lambda(900 + st["out"] % 50, "x")
            kw = {sl: T for sl in st["slots"]}
            kind = st["kind"]
            mk = {"Bin": lambda: hg.Bin(3, -1.0, 2.0, q, **kw), "SparselyBin": lambda: hg.SparselyBin(1.0, q, **kw),
                  "CentrallyBin": lambda: hg.CentrallyBin([-1.0, 0.5, 2.0], q, **kw), "IrregularlyBin": lambda: hg.IrregularlyBin([-0.5, 1.0], q, **kw),
                  "Stack": lambda: hg.Stack([-0.5, 1.0], q, **kw), "Fraction": lambda: hg.Fraction(gate.make_lambda(950 + st["out"] % 50, "b"), **kw),
                  "Categorize": lambda: hg.Categorize(gate.make_lambda(950 + st["out"] % 50, "s"), **kw)}[kind]
            o = call(mk)
            if o.ok:
                w.put(st["out"], o.value, k=-1, via="ctor", mut=True)
                w.bump("probe_template_reused")
            return o, set()
        if st["op"] == "rewrap":
            from histogrammar.util import cached, named, serializable
            from .pool import _walk_objs
            import histogrammar as hg

            hs = sorted(w.heap)
            if not hs:
                return None, set()
            src = w.heap[hs[st["obj"] % len(hs)]]
            qs = [n_.quantity for n_, _, _ in _walk_objs(src) if getattr(n_, "quantity", None) is not None and callable(n_.quantity)]
            if not qs:
                return None, set()
            q = qs[st["qi"] % len(qs)]

            def mk():
                f = q
                for how in st["how"].split("-"):
                    f = named("renamed%d" % st["out"], f) if how == "named" else cached(f) if how == "cached" else serializable(f)
                return {"Sum": lambda: hg.Sum(f), "Bin": lambda: hg.Bin(2, 0.0, 1.0, f), "Average": lambda: hg.Average(f), "Select": lambda: hg.Select(f, hg.Count()),
                        "Categorize": lambda: hg.Categorize(f)}[st["ctor"]]()

            o = call(mk)
            if o.ok:
                w.put(st["out"], o.value, k=-1, via="ctor", mut=False)
                w.bump("probe_quantity_rewrapped")
            return o, set()
        if st["op"] == "df_ctor":
            if any(r >= len(w.records) for r in st["rows"]):
                return None, set()
            df = make_box(w.records, st["rows"], "frame")
            o = call(DF_CTORS[st["kind"]], df)
            if o.ok:
                w.put(st["out"], o.value, k=-1, via="ctor", mut=True)
                w.bump("probe_accessor_ctor")
                # an aggregator built by a separate call holds exactly what its own frame gave it
                import histogrammar as hg

                n = float(len(st["rows"]))
                if o.value.entries != n:
                    raise self.violation(st["kind"], "ctor", "alias:entries",
                                         "df.hg_%s(...) on a frame of %d rows returned an aggregator with entries %r (state left over "
                                         "from another aggregator?)" % (st["kind"], len(st["rows"]), o.value.entries), si)
                again = call(DF_CTORS[st["kind"]], df)
                if again.ok and observe.observe(again.value) != observe.observe(o.value):
                    d = observe.doc_diff(observe.observe(o.value), observe.observe(again.value)) or ([], st["kind"], "?")
                    raise self.violation(d[1], "ctor", "alias:%s" % d[2],
                                         "two identical df.hg_%s(...) calls on the same frame return different content at %s" % (st["kind"], d[0]), si)
            return o, set()
        return super().apply_special(w, st, si)

    def run(self, case, w, R):
        R["shape"] = "|".join(specmod.shape_key(s) for s in case["specs"])
        derived = 0
        mut_after = 0
        if any(v is None for s in case["specs"] for _, sp in specmod.walk(s) for k, v in sp.items() if k in ("value", "cut", "nanflow", "underflow", "overflow")):
            w.bump("probe_default_argument_tree")
        before = snapshot_docs(w)
        for si, st in enumerate(case["steps"]):
            o, writes = self.apply(w, st, si)
            op = st["op"]
            after = snapshot_docs(w)
            if o is not None:
                if not o.ok:
                    w.bump("probe_op_failed_" + op)
                    # a failed += may leave its target half-merged (C10's business): it stays in the write set
                if op in ("add", "mul", "zero", "copy", "immutable") and o.ok:
                    derived += 1
                if st.get("after_template") and o.ok:
                    w.bump("probe_fill_after_template_reuse")
                if op in ("fill", "fillnumpy", "iadd") and derived:
                    mut_after += 1
                    w.bump("fault_alias_mutation")
                    w.bump("probe_mutation_after_derivation")
                check_writeset(self, w, before, after, writes, st, si)
            w.record_step(st, hashes(after))
            before = after
        R["nontrivial"] = derived >= 2 and mut_after >= 2
        R["units"] = len(case["steps"])


SCENARIO = C06()
