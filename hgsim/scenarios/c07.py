"""C07 -- in-place merge agrees with pure merge (scenario `iadd-replica`).

The driver keeps two replicas of the left operand, built by filling two
independent trees with the same data: one does ``a += b``, the other
``a' = a' + b``.  Continuations chosen by the scheduler keep filling b and a,
merge again, reload b from JSON first (the Spark path merges a reloaded partial
with +=), and so on.  Profile `sparksql` drives the real ``fill.sparksql``
against a fake JVM peer (surface S7).
"""
from .. import model, observe, spec as specmod
from ..kernel import HarnessError, call
from .c01 import tol_for
from .pool import PoolScenario, branch_shortcuts, check_writeset, hashes, snapshot_docs


class C07(PoolScenario):
    prop = "C07"
    level = "exploration"
    profiles = ["iadd-replica", "iadd-replica", "sparksql", "iadd-replica", "built"]
    budgets = {"quick": 12000, "thorough": 250000}
    wall_caps = {"quick": 110, "thorough": 1500}
    rule = ("one run = a driver holding two replicas of the accumulator (a does +=, a' does a' = a' + b) and several "
            "partials b_i (fresh, filled, empty, reloaded from JSON); seeded interleaving of fills of a/a' (mirrored), "
            "fills of b_i, and merges; profile `sparksql` runs the real fill.sparksql against a fake JVM converter "
            "over several frames. Non-trivial: >= 1 += with both sides non-empty and >= 1 later fill of b or a. "
            "Distinct: hash of (tree shape, schedule shape).")
    assumptions = ["a and a' start from independently constructed trees filled with identical data",
                   "the JVM peer is a Python stand-in that computes partials with the library itself"]
    expected_faults = ["alias_mutation", "restore"]
    expected_probes = ["iadd_nonempty_both", "iadd_disjoint_sparse", "iadd_reloaded_operand", "fill_b_after_iadd", "pure_op_on_both_replicas",
                       "partial_child_filled_directly", "partial_scaled_to_underflow", "built_operands_share_an_object"]

    def generate(self, rng, tier, profile):
        if profile == "sparksql":
            return self.generate_spark(rng, tier)
        if profile == "built":
            # Fraction.build / Stack.build keep the objects they are given: two partial results assembled from pieces that
            # share one object (the common denominator, a common layer)
            specs, recs, regime = self.gen_workload(rng, tier, profile)
            s = rng.fork("schedule")
            n = len(recs)
            fills = lambda: [[s.randrange(n), s.pick(specmod.POS_WEIGHTS)] for _ in range(s.randint(0, 5))]  # noqa: E731
            return {"kind": "built", "specs": specs, "records": [specmod.enc_record(r) for r in recs], "regime": regime,
                    "steps": [{"op": "built", "how": s.pick(["fraction-shared-den", "fraction-same-object", "stack-shared-layer"]),
                               "n1": fills(), "n2": fills(), "den": fills(), "later": fills()} for _ in range(4)]}
        specs, recs, regime = self.gen_workload(rng, tier, profile)
        s = rng.fork("schedule")
        steps = [{"op": "new", "spec": 0, "out": 1, "actor": "D", "t": 0}, {"op": "new", "spec": 0, "out": 2, "actor": "D", "t": 0},
                 {"op": "new", "spec": 0, "out": 3, "actor": "E1", "t": 0}]
        bs = {3: True}  # handle -> mutable
        nh = 3
        amut = True
        nmax = s.randint(5, self.max_steps[tier])
        for si in range(1, nmax + 1):
            op = s.wpick([("fillpair", 5), ("fillb", 7), ("iaddpair", 4), ("newb", 1.5), ("shipb", 1.2), ("zerob", 0.4),
                          ("npb", 2), ("nppair", 1.5), ("pureboth", 3), ("fillchild", 1.5), ("mulb", 1.2)])
            actor = s.pick(["D", "E1", "E2"])
            if op == "fillpair" and amut:
                steps.append({"op": "fill", "obj": 1, "mirror": 2, "rec": s.randrange(len(recs)),
                              "w": s.pick(specmod.POS_WEIGHTS), "actor": "D", "t": si})
            elif op == "nppair" and amut:
                rows = [s.randrange(len(recs)) for _ in range(s.pick([1, 2, 4]))]
                steps.append({"op": "fillnumpy", "obj": 1, "mirror": 2, "rows": rows, "weights": s.pick(["one", 0.5, 2.0]),
                              "box": s.pick(self.boxes), "actor": "D", "t": si})
            elif op == "fillb":
                hs = [h for h, m in bs.items() if m]
                if hs:
                    steps.append({"op": "fill", "obj": s.pick(hs), "rec": s.randrange(len(recs)),
                                  "w": s.pick(specmod.POS_WEIGHTS), "actor": actor, "t": si})
            elif op == "npb":
                hs = [h for h, m in bs.items() if m]
                if hs:
                    rows = [s.randrange(len(recs)) for _ in range(s.pick([1, 2, 4, 6]))]
                    steps.append({"op": "fillnumpy", "obj": s.pick(hs), "rows": rows, "weights": s.pick(["one", 0.5, 2.0]),
                                  "box": s.pick(self.boxes), "actor": actor, "t": si})
            elif op == "iaddpair":
                b = s.pick(sorted(bs))
                steps.append({"op": "iaddpair", "a": 1, "ap": 2, "b": b, "actor": "D", "t": si})
                amut = amut and bs[b]
            elif op == "pureboth":
                # the same pure operation on the += replica and on the + replica must give the same result
                steps.append({"op": "pureboth", "what": s.pick(["add_b", "b_add", "copy", "mul", "zero_add", "add_self"]), "b": s.pick(sorted(bs)),
                              "actor": "D", "t": si})
            elif op == "fillchild":
                # a partial whose children are filled directly (its own entries stays behind): + and += must still agree
                hs = [h for h, m in bs.items() if m]
                if hs:
                    steps.append({"op": "fillchild", "obj": s.pick(hs), "child": s.randrange(3), "rec": s.randrange(len(recs)),
                                  "w": s.pick(specmod.POS_WEIGHTS), "actor": actor, "t": si})
            elif op == "newb":
                nh += 1
                bs[nh] = True
                steps.append({"op": "new", "spec": 0, "out": nh, "actor": actor, "t": si})
            elif op == "shipb":
                b = s.pick(sorted(bs))
                nh += 1
                wire = s.pick(["json", "jsonstr", "pickle", "file"])
                bs[nh] = bs[b] and wire == "pickle"
                steps.append({"op": "ship", "obj": b, "wire": wire, "out": nh, "actor": actor, "t": si})
            elif op == "mulb":
                # a partial that was scaled, possibly until its weights underflow to 0.0 while its extrema / keys stay
                b = s.pick(sorted(bs))
                nh += 1
                bs[nh] = bs[b]
                steps.append({"op": "mul2", "obj": b, "fs": s.pick([[0.5], [2.0], [1e-200, 1e-200], [1e-200, 1e-200], [5e-324, 0.5], [1e-300, 1e-300]]),
                              "out": nh, "actor": actor, "t": si})
            elif op == "zerob":
                b = s.pick(sorted(bs))
                nh += 1
                bs[nh] = bs[b]
                steps.append({"op": "zero", "obj": b, "out": nh, "actor": actor, "t": si})
        return {"specs": specs, "records": [specmod.enc_record(r) for r in recs], "steps": steps, "regime": regime}

    # ------------------------------------------------------------------
    def run_built(self, case, w, R):
        import histogrammar as hg

        R["shape"] = "built|" + specmod.shape_key(case["specs"][0])
        units = 0

        def tree(fl):
            h = w.build(0).value
            for i, wt in fl:
                if i < len(w.records):
                    h.fill(w.records[i], wt)
            return h

        for si, st in enumerate(case["steps"]):
            def make():
                n1, n2, den = tree(st["n1"]), tree(st["n2"]), tree(st["den"])
                if st["how"] == "fraction-shared-den":
                    return hg.Fraction.build(n1, den), hg.Fraction.build(n2, den), den
                if st["how"] == "fraction-same-object":
                    return hg.Fraction.build(den, den), hg.Fraction.build(n2, tree(st["den"])), den
                return hg.Stack.build(n1, den), hg.Stack.build(n2, den), den

            o1, o2 = call(make), call(make)  # two independent, equal systems: one for +=, one for +
            if not o1.ok or not o2.ok:
                continue
            (a, b, shared), (a2, b2, _) = o1.value, o2.value
            want = call(lambda: a2 + b2)
            if not want.ok:
                continue  # built Stacks have NaN thresholds: they cannot be merged at all (not this property's business)
            b_before, shared_before = observe.observe(b), observe.observe(shared)

            def iadd():
                x = a
                x += b
                return x

            got = call(iadd)
            units += 1
            w.bump("probe_built_operands_share_an_object")
            if not got.ok:
                raise self.violation(exc_site(got.exc)[0], "iadd", "exception:%s" % type(got.exc).__name__,
                                     "a += b raised %s where a + b works (%s)" % (got.describe(), st["how"]), si)
            if got.value is not a:
                raise self.violation(a.name, "iadd", "identity-changed", "a += b rebound a (%s)" % st["how"], si)
            d = observe.doc_diff(observe.observe(a), observe.observe(want.value), tol_for(w.records, 16))
            if d is not None:
                raise self.violation(d[1], "iadd", "content:%s" % d[2], "after a += b (%s) a differs from (old a) + b at %s (%s.%s)" % (st["how"], d[0], d[1], d[2]), si,
                                     {"iadd": observe.observe(a), "add": observe.observe(want.value)})
            if observe.observe(b) != b_before:
                d = observe.doc_diff(b_before, observe.observe(b)) or ([], b.name, "?")
                raise self.violation(d[1], "iadd", "operand-mutated:%s" % d[2], "a += b (%s) changed b at %s" % (st["how"], d[0]), si)
            if st["how"] != "fraction-same-object" and observe.observe(shared) != shared_before:
                d = observe.doc_diff(shared_before, observe.observe(shared)) or ([], shared.name, "?")
                raise self.violation(d[1], "iadd", "operand-mutated:%s" % d[2],
                                     "a += b (%s) changed the object b was built from at %s" % (st["how"], d[0]), si)
            w.record_step(st, {1: observe.obs_hash(observe.observe(a))})
        R["nontrivial"] = units >= 1
        R["units"] = units

    def run(self, case, w, R):
        if case.get("kind") == "sparksql":
            return self.run_spark(case, w, R)
        if case.get("kind") == "built":
            return self.run_built(case, w, R)
        R["shape"] = specmod.shape_key(case["specs"][0])
        iadds = 0
        later = 0
        before = snapshot_docs(w)
        for si, st in enumerate(case["steps"]):
            op = st["op"]
            writes = set()
            if op == "iaddpair":
                if not w.has(st["a"], st["ap"], st["b"]):
                    continue
                a, ap, b = w.heap[st["a"]], w.heap[st["ap"]], w.heap[st["b"]]

                def f():
                    x = a
                    x += b
                    return x

                o1 = call(f)
                o2 = call(lambda: ap + b)
                if o1.ok != o2.ok:
                    bad = o1 if not o1.ok else o2
                    raise self.violation(case["specs"][0]["p"], "iadd", "exception:%s" % type(bad.exc).__name__,
                                         "a += b and a + b disagree on success: += %s, + %s" % (o1.describe(), o2.describe()), si)
                if not o1.ok:
                    w.bump("probe_both_raise")
                    break
                if o1.value is not a:
                    raise self.violation(case["specs"][0]["p"], "iadd", "identity-changed",
                                         "a += b rebound a to a different object", si)
                w.heap[st["ap"]] = o2.value
                w.meta[st["ap"]]["via"] = "add"
                writes = {st["a"], st["ap"]}
                iadds += 1
                bad = branch_shortcuts(w.heap[st["a"]]) if w.has(st["a"]) else None
                if bad is not None:
                    raise self.violation("Branch", "iadd", "stale-shortcut:i%d" % bad[1],
                                         "after a += b the Branch's attribute i%d is not its member %d" % (bad[1], bad[1]), si)
                ea = observe.observe(a)
                eb = before[st["b"]]
                from .. import grammar

                if grammar.entries_of(eb["type"], eb["data"]) > 0 and grammar.entries_of(before[st["a"]]["type"], before[st["a"]]["data"]) > 0:
                    w.bump("probe_iadd_nonempty_both")
                if not w.meta[st["b"]].get("mut", True):
                    w.bump("probe_iadd_reloaded_operand")
                    w.bump("fault_restore")
                self._probe_disjoint(w, a, b)
            elif op == "pureboth":
                if not w.has(1, 2, st["b"]):
                    continue
                a, ap, b = w.heap[1], w.heap[2], w.heap[st["b"]]
                what = st["what"]

                def do(x):
                    if what == "add_b":
                        return x + b
                    if what == "b_add":
                        return b + x
                    if what == "copy":
                        return x.copy()
                    if what == "mul":
                        return x * 2.0
                    if what == "zero_add":
                        return x.zero() + x
                    return x + x

                o1, o2 = call(do, a), call(do, ap)
                if o1.ok != o2.ok:
                    bad = o1 if not o1.ok else o2
                    raise self.violation(case["specs"][0]["p"], "iadd", "replica-diverged:exception:%s" % type(bad.exc).__name__,
                                         "%s on the += replica: %s; on the + replica: %s" % (what, o1.describe(), o2.describe()), si)
                if o1.ok:
                    d = observe.doc_diff(observe.observe(o1.value), observe.observe(o2.value), tol_for(w.records, si + 8))
                    if d is not None:
                        raise self.violation(d[1], "iadd", "replica-diverged:%s" % d[2],
                                             "%s of the += replica differs from %s of the + replica at %s (%s.%s)" % (what, what, d[0], d[1], d[2]), si,
                                             {"iadd": observe.observe(o1.value), "add": observe.observe(o2.value)})
                    w.bump("probe_pure_op_on_both_replicas")
                writes = set()
            elif op == "mul2":
                if not w.has(st["obj"]):
                    continue

                def scaled(x=w.heap[st["obj"]]):
                    for f_ in st["fs"]:
                        x = x * f_
                    return x

                o = call(scaled)
                if o.ok:
                    w.put(st["out"], o.value, k=w.meta[st["obj"]]["k"], via="mul", mut=w.meta[st["obj"]]["mut"])
                    if len(st["fs"]) > 1:
                        w.bump("probe_partial_scaled_to_underflow")
            elif op == "fillchild":
                if not w.has(st["obj"]) or st["rec"] >= len(w.records):
                    continue
                # only the members of a collection are positions of their own (a sparse container's first "child" is
                # its value template, which must never be filled)
                if case["specs"][0]["p"] not in ("Label", "UntypedLabel", "Index", "Branch"):
                    continue
                try:
                    kids = [c for c in w.heap[st["obj"]].children if c is not None]
                except Exception:
                    kids = []
                if not kids:
                    continue
                o = call(kids[st["child"] % len(kids)].fill, w.records[st["rec"]], st["w"])
                if not o.ok:
                    self.lib(o, "fill", si)
                w.bump("probe_partial_child_filled_directly")
                writes = {st["obj"]}
            else:
                o, writes = self.apply(w, st, si)
                if o is None:
                    continue
                if not o.ok:
                    if op in ("fill", "fillnumpy"):
                        self.lib(o, op, si)
                    w.bump("probe_op_failed_" + op)
                if "mirror" in st and w.has(st["mirror"]):
                    st2 = dict(st)
                    st2["obj"] = st["mirror"]
                    del st2["mirror"]
                    o2, w2 = self.apply(w, st2, si)
                    if o2 is not None and not o2.ok:
                        self.lib(o2, op, si)
                    writes = writes | w2
                if op in ("fill", "fillnumpy") and iadds:
                    later += 1
                    w.bump("fault_alias_mutation")
                    if st["obj"] not in (1, 2):
                        w.bump("probe_fill_b_after_iadd")
            after = snapshot_docs(w)
            check_writeset(self, w, before, after, writes, st, si)
            if 1 in after and 2 in after:
                n = si + 8
                d = observe.doc_diff(after[1], after[2], tol_for(w.records, n))
                if d is not None:
                    raise self.violation(d[1], "iadd", "content:%s" % d[2],
                                         "after step %d (%s) the += replica differs from the + replica at %s (%s.%s)" % (
                                             si, op, d[0], d[1], d[2]), si, {"iadd": after[1], "add": after[2]})
            w.record_step(st, hashes(after))
            before = after
        R["nontrivial"] = iadds >= 1 and later >= 1
        R["units"] = iadds

    def _probe_disjoint(self, w, a, b):
        import histogrammar as hg

        def walk2(x, y):
            yield x, y
            try:
                cx, cy = list(x.children), list(y.children)
            except Exception:
                return
            if len(cx) == len(cy):
                for p, q in zip(cx, cy):
                    if p is not None and type(p) is type(q):
                        yield from walk2(p, q)

        for x, y in walk2(a, b):
            if isinstance(x, (hg.SparselyBin, hg.Categorize)):
                kx, ky = set(x.bins), set(y.bins)
                if ky and ky - kx:
                    w.bump("probe_iadd_disjoint_sparse")
                    return

    # ------------------------------------------------------------------ fake JVM (surface S7)
    def generate_spark(self, rng, tier):
        from . import sparkfake

        return sparkfake.generate(self, rng, tier)

    def run_spark(self, case, w, R):
        from . import sparkfake

        return sparkfake.run(self, case, w, R)


SCENARIO = C07()
