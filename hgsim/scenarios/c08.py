"""C08 -- scaling equals refilling with weights multiplied (scenario `reweight`).

Every pool object carries the multiset of (record, weight) it represents; a
scaling by f > 0 multiplies those weights, by f <= 0 or NaN empties it.  After
every operation the result must equal the exact reference model of its multiset
(replica A "filled with w*f" is the model; replica B is the library's ``* f``),
and the scaled result is used like any other aggregator: merged, filled further,
hashed, serialised, scaled again, sent through a wire and scaled on the other
side.  Seeded algebraic probes: (h*a)*b = h*(a*b), h*1 = h, h*2 = h+h,
(g+h)*f = g*f + h*f, restore(h)*f = restore(h*f).
"""
import json

from .. import model, observe, spec as specmod
from ..kernel import call, exc_site
from .c01 import model_tol, tol_for
from .pool import FACTORS_ODD, FACTORS_POS, PoolScenario, branch_shortcuts


def scale_cover(cover, f):
    if f != f or f <= 0:
        return []
    return [(i, w * f) for i, w in cover]


class C08(PoolScenario):
    prop = "C08"
    level = "exploration"
    profiles = ["reweight", "reweight", "transform"]
    budgets = {"quick": 16000, "thorough": 300000}
    wall_caps = {"quick": 110, "thorough": 1500}
    ops = {"new": 1, "fill": 9, "fillnumpy": 2.5, "add": 3, "mul": 6, "ship": 1.5, "copy": 0.7, "probe": 3, "use": 3, "twin_fill": 3}
    wires = ["json", "pickle", "jsonstr"]
    factors_odd = 0.2
    rule = ("one run = a pool history in which partials are scaled by factors from {positive dyadics, ints, 0, "
            "negatives, NaN} (h*f or f*h), and scaled results are merged, filled further, hashed, serialised, scaled "
            "again and shipped; each object is compared with the exact model of its (record, weight*f) multiset after "
            "every operation; profile `transform` uses Counts with a non-identity transform, which must refuse "
            "scaling. Non-trivial: >= 2 scalings of non-empty objects and >= 1 continuation (fill/merge/hash/"
            "serialise) on a scaled object. Distinct: hash of (tree shapes, schedule shape).")
    assumptions = ["reference model is the specification; dyadic regime: exact fields compared with ==",
                   "a tree containing a Count with non-identity transform must raise ContainerException on *"]
    expected_faults = ["reweight"]
    expected_probes = ["scaled_then_filled", "scaled_then_merged", "scaled_then_hashed", "odd_factor", "mul_assoc",
                       "mul_distrib", "mul_restore"]

    def gen_workload(self, rng, tier, profile):
        self.spec_opts = {"count_transform": 0.5} if profile == "transform" else {}
        return super().gen_workload(rng, tier, profile)

    def gen_special(self, op, st, s, ab, specs, recs):
        hs = ab.handles()
        if op == "probe":
            what = s.pick(["assoc", "one", "two", "distrib", "restore"])
            h = s.pick(hs)
            st.update(what=what, obj=h, a=specmod.enc_float(s.pick(FACTORS_POS)), b=specmod.enc_float(s.pick(FACTORS_POS + [0.0])))
            if what == "distrib":
                st["other"] = s.pick([x for x in hs if ab.objs[x]["k"] == ab.objs[h]["k"]])
            return [st]
        if op == "use":
            st.update(obj=s.pick(hs), what=s.pick(["hash", "dumps", "repr", "eq_self", "zero", "toJsonFile"]))
            return [st]
        if op == "twin_fill":
            return []
        return super().gen_special(op, st, s, ab, specs, recs)

    def has_transform(self, spec):
        return any(sp.get("transform") for _, sp in specmod.walk(spec))

    # ------------------------------------------------------------------
    def expect(self, w, h, si, what):
        m = w.meta[h]
        if m.get("cover") is None:
            return
        sp = w.specs[m["k"]]
        doc = observe.observe(w.heap[h])
        if m.get("vectorised"):
            # fill.numpy creates a (zero-weight) category / sparse bin for every value present in a batch: not content
            doc = {"type": doc["type"], "data": observe.drop_empty(doc["type"], doc["data"]), "version": doc["version"]}
        mod = model.model_doc(sp, [(w.records[i], wt) for i, wt in m["cover"]])
        if m.get("named_lost"):
            pass
        d = observe.doc_diff(doc, mod, model_tol(w, tol_for(w.records, len(m["cover"]) + 4 * si + 8)))
        if d is not None:
            raise self.violation(d[1], what, "content:%s" % d[2],
                                 "after %s object %d differs from the model of its weighted multiset at %s (%s.%s)" % (
                                     what, h, d[0], d[1], d[2]), si, {"observed": doc, "expected": mod})

    def same(self, w, x, y, si, what, label):
        dx, dy = observe.observe(x), observe.observe(y)
        d = observe.doc_diff(dx, dy, tol_for(w.records, 8 * si + 16))
        if d is not None:
            raise self.violation(d[1], what, "%s:%s" % (label, d[2]), "%s: %s differs at %s (%s.%s)" % (what, label, d[0], d[1], d[2]),
                                 si, {"one": dx, "other": dy})

    def must(self, o, what, si):
        if not o.ok:
            raise self.violation(exc_site(o.exc)[0], what, "exception:%s" % type(o.exc).__name__, "%s raised %s" % (what, o.describe()), si)
        return o.value

    def generate(self, rng, tier, profile):
        case = super().generate(rng, tier, profile)
        k = rng.fork("tolerance")
        # histogrammar.util.relativeTolerance / absoluteTolerance are a knob of ==, not of * : small positive factors stay factors
        case["tol"] = k.pick([0.0, 0.0, 0.0, 1e-9, 1e-6])
        case["tolmode"] = k.pick(["both", "abs", "rel"])
        muls = [st for st in case["steps"] if st["op"] == "mul"]
        if muls and k.chance(0.5):
            # one small dyadic factor per history (more of them would spread the weights over more than 53 bits and the
            # exact reference sums would no longer be what floating point delivers)
            k.pick(muls)["f"] = specmod.enc_float(k.pick([2.0 ** -20, 2.0 ** -20, 2.0 ** -10]))
        return case

    def run(self, case, w, R):
        import histogrammar.util as util

        old = (util.relativeTolerance, util.absoluteTolerance)
        tol = float(case.get("tol") or 0.0)
        if tol > 0.0:
            mode = case.get("tolmode", "both")
            util.relativeTolerance = tol if mode in ("both", "rel") else 0.0
            util.absoluteTolerance = tol if mode in ("both", "abs") else 0.0
            w.bump("probe_tolerance_configured")
        try:
            return self._run(case, w, R)
        finally:
            util.relativeTolerance, util.absoluteTolerance = old

    def _run(self, case, w, R):
        from histogrammar.defs import ContainerException

        R["shape"] = "|".join(specmod.shape_key(s) for s in case["specs"])
        nscaled = 0
        ncont = 0
        for si, st in enumerate(case["steps"]):
            op = st["op"]
            if op == "probe":
                if not w.has(st["obj"]):
                    continue
                h = w.heap[st["obj"]]
                if self.has_transform(w.specs[w.meta[st["obj"]]["k"]]):
                    continue
                a, b = specmod.dec_float(st["a"]), specmod.dec_float(st["b"])
                what = st["what"]
                if what == "assoc":
                    l = self.must(call(lambda: (h * a) * b), "mul", si)
                    r = self.must(call(lambda: h * (a * b)), "mul", si)
                    self.same(w, l, r, si, "mul", "mul-assoc")
                    w.bump("probe_mul_assoc")
                elif what == "one":
                    self.same(w, self.must(call(lambda: h * 1), "mul", si), h, si, "mul", "mul-one")
                    self.same(w, self.must(call(lambda: 1.0 * h), "mul", si), h, si, "mul", "mul-one")
                elif what == "two":
                    self.same(w, self.must(call(lambda: h * 2), "mul", si), self.must(call(lambda: h + h), "add", si), si, "mul", "mul-two")
                elif what == "distrib":
                    if not w.has(st.get("other")):
                        continue
                    g = w.heap[st["other"]]
                    l = self.must(call(lambda: (g + h) * a), "mul", si)
                    r = self.must(call(lambda: g * a + h * a), "mul", si)
                    self.same(w, l, r, si, "mul", "mul-distrib")
                    w.bump("probe_mul_distrib")
                elif what == "restore":
                    import histogrammar as hg

                    l = self.must(call(lambda: hg.Factory.fromJson(h.toJson()) * a), "mul", si)
                    r = self.must(call(lambda: hg.Factory.fromJson((h * a).toJson())), "mul", si)
                    self.same(w, l, r, si, "mul", "mul-restore")
                    w.bump("probe_mul_restore")
                w.record_step(st)
                continue
            if op == "use":
                if not w.has(st["obj"]):
                    continue
                h = w.heap[st["obj"]]
                scaled = w.meta[st["obj"]].get("scaled")
                what = st["what"]
                if what == "hash":
                    self.must(call(hash, h), "hash", si)
                    if scaled:
                        w.bump("probe_scaled_then_hashed")
                elif what == "dumps":
                    self.must(call(lambda: json.dumps(h.toJson(), allow_nan=False)), "toJson", si)
                elif what == "repr":
                    self.must(call(repr, h), "repr", si)
                elif what == "eq_self":
                    o = call(lambda: h == h)
                    if not bool(self.must(o, "eq", si)):
                        raise self.violation(h.name, "eq", "eq-false-on-equal:self", "h == h is False", si)
                elif what == "zero":
                    self.must(call(h.zero), "zero", si)
                elif what == "toJsonFile":
                    self.must(call(h.toJsonFile, "use%d.json" % si), "toJsonFile", si)
                if scaled:
                    ncont += 1
                w.record_step(st)
                continue
            o, writes = self.apply(w, st, si)
            if o is None:
                continue
            m = w.meta
            if op == "new":
                self.must(o, "construct", si)
                m[st["out"]]["cover"] = []
            elif op == "fill":
                self.must(o, "fill", si)
                wt = specmod.dec_float(st["w"])
                mm = m[st["obj"]]
                if mm.get("cover") is not None:
                    mm["cover"].append((st["rec"], wt))
                if mm.get("scaled"):
                    w.bump("probe_scaled_then_filled")
                    ncont += 1
                self.expect(w, st["obj"], si, "fill")
            elif op == "fillnumpy":
                self.must(o, "fillnumpy", si)
                mm = m[st["obj"]]
                ws_ = [1.0] * len(st["rows"]) if st["weights"] == "one" else [float(x) for x in st["row_weights"]] if st["weights"] == "array" \
                    else [float(st["weights"])] * len(st["rows"])
                if mm.get("cover") is not None:
                    mm["cover"] += [(i, wt_) for i, wt_ in zip(st["rows"], ws_)]
                mm["vectorised"] = True
                if mm.get("scaled"):
                    w.bump("probe_scaled_then_filled")
                    ncont += 1
                self.expect(w, st["obj"], si, "fillnumpy")
            elif op == "mul":
                f = specmod.dec_float(st["f"])
                src = st["obj"]
                if self.has_transform(w.specs[m[src]["k"]]) and not o.ok:
                    # a Count with a non-identity transform cannot be rescaled: the library refuses (any other
                    # exception type is a failure); a result, if one is returned, must still match the model
                    if not isinstance(o.exc, ContainerException):
                        raise self.violation("Count", "mul", "exception:%s" % type(o.exc).__name__,
                                             "scaling a tree with a transformed Count raised %s instead of ContainerException" % o.describe(), si)
                    w.bump("probe_transform_refused")
                    w.record_step(st)
                    continue
                self.must(o, "mul", si)
                bad = branch_shortcuts(o.value)
                if bad is not None:
                    raise self.violation("Branch", "mul", "stale-shortcut:i%d" % bad[1],
                                         "the scaled Branch's attribute i%d is not its member %d (entries %r vs %r)" % (
                                             bad[1], bad[1], getattr(bad[0], "i%d" % bad[1]).entries, list(bad[0].values)[bad[1]].entries), si)
                cov = m[src].get("cover")
                m[st["out"]]["cover"] = None if cov is None else scale_cover(cov, f)
                m[st["out"]]["scaled"] = True
                m[st["out"]]["vectorised"] = m[src].get("vectorised")
                w.bump("fault_reweight")
                if f != f or f <= 0:
                    w.bump("probe_odd_factor")
                if cov:
                    nscaled += 1
                self.expect(w, st["out"], si, "mul")
            elif op == "add":
                self.must(o, "add", si)
                ca, cb = m[st["l"]].get("cover"), m[st["r"]].get("cover")
                m[st["out"]]["cover"] = None if ca is None or cb is None else ca + cb
                m[st["out"]]["scaled"] = m[st["l"]].get("scaled") or m[st["r"]].get("scaled")
                m[st["out"]]["vectorised"] = m[st["l"]].get("vectorised") or m[st["r"]].get("vectorised")
                if m[st["out"]]["scaled"]:
                    w.bump("probe_scaled_then_merged")
                    ncont += 1
                self.expect(w, st["out"], si, "add")
            elif op in ("copy", "ship"):
                self.must(o, op, si)
                m[st["out"]]["cover"] = None if m[st["obj"]].get("cover") is None else list(m[st["obj"]]["cover"])
                if op == "ship" and st["wire"] != "pickle" and self.has_transform(w.specs[m[st["obj"]]["k"]]):
                    # the document does not carry a Count's transform: the reload is a plain number and the model of
                    # its multiset no longer applies to later scalings
                    m[st["out"]]["cover"] = None
                    m[st["out"]]["k_plain"] = True
                m[st["out"]]["scaled"] = m[st["obj"]].get("scaled")
                m[st["out"]]["vectorised"] = m[st["obj"]].get("vectorised")
                self.expect(w, st["out"], si, op)
            w.record_step(st)
        R["nontrivial"] = nscaled >= 2 and ncont >= 1
        R["units"] = nscaled


SCENARIO = C08()
