"""C12 -- a fill that raises is as if the record had been skipped (scenario `faulty-stream`).

An executor processes a stream with the policy
``try: h.fill(d, w) except Exception: continue``.  The nemesis arms faults at
(stream position, node, mode): the gate of that node raises, or returns a value
of the wrong type for that primitive.  For streams of <= 8 records *every* single
fault placement is enumerated (plus seeded multi-fault subsets); longer streams
get seeded subsets of positions.
"""
from .. import gate, model, observe, spec as specmod
from ..kernel import call, exc_site
from .base import Scenario, shrink_records, shrink_specs, shrink_steps
from .c01 import tol_for


class C12(Scenario):
    prop = "C12"
    level = "fault_enumeration"
    profiles = ["faulty-stream", "faulty-stream", "new-bin-collection"]
    budgets = {"quick": 6000, "thorough": 100000}
    wall_caps = {"quick": 110, "thorough": 1500}
    block = 32
    rule = ("one run = one base case (single-path tree over Bin / SparselyBin / CentrallyBin / IrregularlyBin / "
            "Categorize / Select with any leaf, stream of <= 8 weighted records) for which every single fault placement "
            "(stream position x quantity-bearing node x {raise, wrong type}) is enumerated, plus seeded 2-3 fault "
            "subsets; thorough also uses streams of up to 40 records with seeded subsets. units_checked = placements "
            "executed. Non-trivial: a fault fired at depth >= 1 after >= 1 successful fill. Distinct: hash of (tree "
            "shape, stream length, number of placements).")
    assumptions = ["only quantity functions fail (exception or wrong return type), as the statement says",
                   "fan-out collections only as the bins of a sparse container (profile new-bin-collection): a record that fails in a bin "
                   "that does not exist yet must leave nothing behind; once a failing record reaches an existing bin the stream is dropped"]
    expected_faults = ["q_raise", "q_raisebase", "q_badtype", "q_badnum", "q_badcomplex", "q_missing_field"]
    expected_probes = ["fault_in_nested_child", "fault_on_new_sparse_bin", "fault_not_reached", "fanout_new_bin", "fanout_existing_bin", "stream_on_scaled_tree"]

    def _gen_collection(self, rng, tier):
        """a sparse container whose bins are collections: a record that fails in a later child of a *new* bin must leave
        no trace at all (the bin is not created), so the final aggregate is still the one of the surviving records - as
        long as no failing record is routed to a bin that already exists (that is outside the guarantee)"""
        t = rng.fork("tree")
        kind = t.pick(["Branch", "Branch", "UntypedLabel", "Label", "Index"])
        if kind in ("Label", "Index"):
            leaf = t.pick(["Sum", "Average", "Minimize", "Deviate"])
            kids = [{"p": leaf, "q": {"f": f, "kind": "lambda"}} for f in t.sample(["x", "y", "x"], t.randint(2, 3))]
        else:
            kids = [{"p": t.pick(["Sum", "Average", "Maximize", "Deviate", "Bag"]), "q": {"f": f, "kind": t.pick(["lambda", "lambda", "str"])}}
                    for f in t.sample(["x", "y", "x", "y"], t.randint(2, 3))]
            for k in kids:
                if k["p"] == "Bag":
                    k["range"] = "N"
                if k["q"]["kind"] == "str":
                    k["q"]["expr"] = k["q"]["f"]
            if t.chance(0.3):
                kids.insert(t.randrange(len(kids) + 1), {"p": "Count"})
        coll = {"p": kind, "pairs": {"k%d" % i: k for i, k in enumerate(kids)}} if kind in ("Label", "UntypedLabel") else {"p": kind, "values": kids}
        if t.chance(0.5):
            sp = {"p": "Categorize", "q": {"f": "s", "kind": "lambda"}, "value": coll}
        else:
            sp = {"p": "SparselyBin", "binWidth": 1.0, "origin": 0.0, "q": {"f": "x", "kind": "lambda"}, "value": coll, "nanflow": None}
        if t.chance(0.3):
            sp = {"p": "Select", "q": {"f": "b", "kind": "lambda"}, "cut": sp}
        d = rng.fork("data")
        n = d.randint(3, 8)
        crit = specmod.critical_values(sp)
        recs = [specmod.gen_record(d, crit, {"no_none": True}) for _ in range(n)]
        for r in recs:
            r["b"] = True
            r["x"] = float(d.pick([-2.0, -1.0, 0.0, 0.5, 1.0, 2.5, 3.0, 7.0]))
        ws = [d.pick(specmod.POS_WEIGHTS) for _ in recs]
        nodes = [nd["id"] for nd in specmod.nodes(sp) if nd["f"] is not None and len(nd["path"]) >= 1]
        steps = [{"op": "stream", "faults": []}]
        for pos in range(n):
            for fld in ("x", "y"):
                steps.append({"op": "stream", "faults": [], "missing": [[pos, fld]]})
            for nd in nodes:
                for mode in ("raise", "badtype"):
                    steps.append({"op": "stream", "faults": [[pos, nd, mode]]})
        f = rng.fork("faults")
        for _ in range(6):
            steps.append({"op": "stream", "faults": [], "missing": [[f.randrange(n), "y"] for _ in range(f.randint(2, 3))]})
        return {"spec": sp, "records": [specmod.enc_record(r) for r in recs], "weights": ws, "steps": steps, "fanout": True,
                "prelude": self._gen_prelude(rng, n)}

    def _gen_prelude(self, rng, n):
        """sometimes the stream does not start on a fresh tree but on one that was filled and scaled before (also until
        its weights underflowed to 0.0): then only the rollback of every failing fill is checked, not the final content"""
        p = rng.fork("prelude")
        if not p.chance(0.2):
            return None
        return {"fills": [p.randrange(n) for _ in range(p.randint(1, 6))], "scales": p.pick([[2.0], [0.5], [1e-200, 1e-200], [1e-200, 1e-200], [5e-324, 0.5]])}

    def generate(self, rng, tier, profile):
        if profile == "new-bin-collection":
            return self._gen_collection(rng, tier)
        big = tier == "thorough"
        opts = specmod.merge_opts(prims=specmod.LEAVES + specmod.SINGLE, depth=5 if big else 4, max_nodes=16,
                                  qkinds=[("lambda", 5), ("named", 1), ("def", 1), ("str", 2)], str_plain=True)
        t = rng.fork("tree")
        sp = specmod.gen_spec(t, opts)
        tries = 0
        while not any("q" in s for _, s in specmod.walk(sp)) and tries < 20:
            sp = specmod.gen_spec(t, opts)
            tries += 1
        crit = specmod.critical_values(sp)
        d = rng.fork("data")
        long_ = big and d.chance(0.25)
        n = d.randint(1, 40 if long_ else 8)
        recs = [specmod.gen_record(d, crit) for _ in range(n)]
        ws = [d.pick(specmod.POS_WEIGHTS) for _ in recs]
        nodes = [nd["id"] for nd in specmod.nodes(sp) if nd["f"] is not None]
        f = rng.fork("faults")
        steps = [{"op": "stream", "faults": []}]  # fault-free control
        fields = sorted(set(nd["f"] for nd in specmod.nodes(sp) if nd["f"] in ("x", "y", "s", "t", "c", "b")))
        if not long_:
            for pos in range(n):
                for fld in fields:
                    # the record at this position lacks one field: every quantity that reads it raises (KeyError for a
                    # function, NameError for a string expression)
                    steps.append({"op": "stream", "faults": [], "missing": [[pos, fld]]})
        numeric = set(nd["id"] for nd in specmod.nodes(sp) if nd["f"] is not None and nd["p"] in
                      ("Sum", "Average", "Deviate", "Minimize", "Maximize", "Bin", "SparselyBin", "CentrallyBin", "IrregularlyBin", "Stack", "Select", "Fraction"))
        if not long_:
            for pos in range(n):
                for nd in nodes:
                    for mode in ("raise", "badtype", "raisebase") + (("badnum", "badcomplex") if nd in numeric else ()):
                        steps.append({"op": "stream", "faults": [[pos, nd, mode]]})
            for _ in range(min(6, n)):
                k = f.randint(2, 3)
                steps.append({"op": "stream", "faults": [[f.randrange(n), f.pick(nodes), f.pick(["raise", "badtype"])] for _ in range(k)]})
        else:
            for _ in range(60):
                k = f.randint(1, 4)
                steps.append({"op": "stream", "faults": [[f.randrange(n), f.pick(nodes), f.pick(["raise", "badtype"])] for _ in range(k)]})
        if len(steps) > 200:
            # a deep tree with many quantity-bearing nodes: a seeded sample of the placements instead of all of them
            steps = steps[:1] + f.sample(steps[1:], 199)
        return {"spec": sp, "records": [specmod.enc_record(r) for r in recs], "weights": ws, "steps": steps, "prelude": self._gen_prelude(rng, n)}

    def run(self, case, w, R):
        sp = case["spec"]
        depth = {nd["id"]: len(nd["path"]) for nd in specmod.nodes(sp)}
        R["shape"] = "%s|%d|%d" % (specmod.shape_key(sp), len(case["records"]), len(case["steps"]))
        nontrivial = False
        units = 0
        ws = case["weights"]
        for si, st in enumerate(case["steps"]):
            h = w.build(0)
            if not h.ok:
                raise self.violation(exc_site(h.exc)[0], "construct", "exception:%s" % type(h.exc).__name__, h.describe(), si)
            h = h.value
            pre = case.get("prelude")
            if pre:
                def prepared(x=h):
                    for i in pre["fills"]:
                        if i < len(w.records):
                            x.fill(w.records[i], 1.0)
                    for f_ in pre["scales"]:
                        x = x * f_
                    return x

                o = call(prepared)
                if o.ok and hasattr(o.value, "fill"):
                    h = o.value
                    w.bump("probe_stream_on_scaled_tree")
                else:
                    pre = None
                    h = w.build(0).value
            faults = {}
            for pos, nd, mode in st["faults"]:
                if pos < len(w.records) and nd in depth:
                    faults.setdefault(pos, {})[nd] = mode
            survivors = []
            ok_fills = 0
            tainted = False
            missing = {}
            for pos, fld in st.get("missing", []):
                missing.setdefault(pos, []).append(fld)
            for pos, rec in enumerate(w.records):
                if pos >= len(ws):
                    break
                armed = faults.get(pos, {})
                if pos in missing:
                    rec = {k: v for k, v in rec.items() if k not in missing[pos]}
                    readers = [nd for nd in specmod.nodes(sp) if nd["f"] in missing[pos] or (nd["f"] in ("xy", "xyc") and set(missing[pos]) & set(nd["f"]))]
                before = observe.observe(h)
                keys_before = self._sparse_keys(h)
                fresh_bin = self._routed_to_new_bin(h, rec) if case.get("fanout") else None
                gate.STATE.armed = dict(armed)
                gate.STATE.fired = []
                o = call(h.fill, rec, ws[pos])
                fired = list(gate.STATE.fired)
                gate.STATE.armed = {}
                if pos in missing and not o.ok and not fired:
                    # a quantity could not read the missing field: same contract as any other raising quantity function
                    fired = [(readers[0]["id"] if readers else 0, "missing")]
                    w.bump("fault_q_missing_field")
                if o.ok:
                    if fired:
                        # the armed gate was called yet fill returned normally: the wrong-typed value was accepted
                        nd, mode = fired[0]
                        prim = specmod.nodes(sp)[nd]["p"]
                        raise self.violation(prim, "fill", "no-exception:%s" % mode,
                                             "fill returned normally although the quantity of node %d (%s) %s" % (
                                                 nd, prim, "raised" if mode in ("raise", "raisebase") else "returned a value of the wrong type (%s)" % mode), si,
                                             {"placement": st["faults"], "pos": pos})
                    if pos in missing:
                        # the fill went through: then no quantity on this record's path reads the missing field
                        try:
                            model.model_doc(sp, [(rec, ws[pos])])
                        except KeyError as e:
                            raise self.violation(readers[0]["p"] if readers else sp["p"], "fill", "no-exception:missing-field",
                                                 "fill returned normally for a record that lacks the field %s which a quantity "
                                                 "on its path reads" % e, si, {"pos": pos, "missing": missing[pos]})
                    survivors.append((rec, ws[pos]))
                    ok_fills += 1
                    if armed:
                        w.bump("probe_fault_not_reached")
                    continue
                if not fired:
                    raise self.violation(exc_site(o.exc)[0], "fill", "exception:%s" % type(o.exc).__name__,
                                         "a fill without a fired fault raised %s" % o.describe(), si, {"pos": pos})
                if case.get("fanout") and not fresh_bin:
                    # the failing record went to a bin that exists: its elder children have counted it (outside the guarantee);
                    # nothing more can be demanded of this stream
                    tainted = True
                    w.bump("probe_fanout_existing_bin")
                    continue
                if case.get("fanout"):
                    w.bump("probe_fanout_new_bin")
                units += 1
                for nd, mode in fired[:1]:
                    if mode != "missing":
                        w.bump("fault_q_" + mode)
                    if depth[nd] >= 1 and 0 in keys_before:
                        # the failing record was routed through a sparse container that had no bin yet
                        w.bump("probe_fault_on_new_sparse_bin")
                    if depth[nd] >= 1:
                        w.bump("probe_fault_in_nested_child")
                        if ok_fills >= 1:
                            nontrivial = True
                after = observe.observe(h)
                if after != before:
                    d = observe.doc_diff(before, after) or ([], sp["p"], "?")
                    nd, mode = fired[0]
                    raise self.violation(d[1], "fill", "state-changed:%s" % d[2],
                                         "fill of record %d raised (%s at node %d) but changed the tree at %s (%s.%s)" % (
                                             pos, mode, nd, d[0], d[1], d[2]), si,
                                         {"before": before, "after": after, "placement": st["faults"]})
            if tainted or pre:
                w.record_step(st, {0: observe.obs_hash(observe.observe(h))})
                continue
            m = model.model_doc(sp, survivors)
            final = observe.observe(h)
            d = observe.doc_diff(final, m, tol_for(w.records, len(w.records) + 4))
            if d is not None:
                raise self.violation(d[1], "fill", "content:%s" % d[2],
                                     "final aggregate differs from the model of the surviving records at %s (%s.%s)" % (d[0], d[1], d[2]),
                                     si, {"observed": final, "expected": m, "placement": st["faults"]})
            w.record_step(st, {0: observe.obs_hash(final)})
        R["nontrivial"] = nontrivial
        R["units"] = units

    def _routed_to_new_bin(self, h, rec):
        """True if the (outermost) sparse container of the tree has no bin yet for this record"""
        node = h
        for _ in range(4):
            nm = getattr(node, "name", "")
            if nm == "Select":
                node = node.cut
                continue
            try:
                if nm == "Categorize":
                    k = rec.get("s")
                    k = "NaN" if (k is None or k != k) else str(k)
                    return k not in node.bins
                if nm == "SparselyBin":
                    x = rec.get("x")
                    if x is None or x != x:
                        return False
                    return node.bin(x) not in node.bins
            except Exception:
                return False
            return False
        return False

    def _sparse_keys(self, h):
        out = []

        def rec(x, d=0):
            if d > 8:
                return
            b = x.__dict__.get("bins")
            if isinstance(b, dict):
                out.append(len(b))
            try:
                for c in x.children:
                    if c is not None:
                        rec(c, d + 1)
            except Exception:
                pass

        rec(h)
        return out

    def shrink(self, case):
        yield from shrink_steps(case)
        # dropping a record shifts positions: do it only from the end
        import copy

        if len(case["records"]) > 1:
            c = copy.deepcopy(case)
            c["records"] = c["records"][:-1]
            c["weights"] = c["weights"][:-1]
            yield c
        yield from shrink_specs(case)
        yield from shrink_records(case)


SCENARIO = C12()
