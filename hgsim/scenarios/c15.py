"""C15 -- malformed or foreign JSON is rejected (scenario `wire-corruption`).

Every document that crosses JsonWire / FileWire is a base case.  Fault
`doc_struct_corrupt` applies one structural mutation at one position; all
positions x mutation kinds are enumerated per base document.  Mutants are
*invalid by construction*: the independent document grammar (hgsim/grammar.py)
knows, for every position, the required and optional keys and the JSON types the
format allows there, and the check asserts ``not grammar.valid_document(mutant)``
before demanding anything.  `torn_write` / `short_read` cut the text.
"""
import copy
import json

from .. import grammar, observe, spec as specmod
from ..kernel import HarnessError, call, exc_site
from .base import Scenario, shrink_records, shrink_specs, shrink_steps


def gen_base(rng, tier, opts=None, max_fill=12):
    big = tier == "thorough"
    o = specmod.merge_opts(depth=4 if big else 3, max_nodes=16 if big else 10, max_num=3, max_coll=2, **(opts or {}))
    sp = specmod.gen_spec(rng.fork("tree"), o)
    crit = specmod.critical_values(sp)
    d = rng.fork("data")
    recs = [specmod.gen_record(d, crit) for _ in range(d.randint(1, 10))]
    s = rng.fork("schedule")
    fills = [[s.randrange(len(recs)), s.pick(specmod.POS_WEIGHTS)] for _ in range(s.randint(0, max_fill))]
    fills2 = [[s.randrange(len(recs)), s.pick(specmod.POS_WEIGHTS)] for _ in range(s.randint(0, 6))] if s.chance(0.3) else None
    return sp, recs, fills, fills2


def make_state(scn, w, case, si=0):
    """build the base aggregator from its recorded fills (and optional merge)"""
    def one(fl):
        o = w.build(0)
        if not o.ok:
            raise scn.violation(exc_site(o.exc)[0], "construct", "exception:%s" % type(o.exc).__name__, o.describe(), si)
        h = o.value
        for i, wt in fl:
            if i < len(w.records):
                f = call(h.fill, w.records[i], wt)
                if not f.ok:
                    raise scn.violation(exc_site(f.exc)[0], "fill", "exception:%s" % type(f.exc).__name__, f.describe(), si)
        return h

    h = one(case["fills"])
    if case.get("inf_weight_fill") is not None and w.records:
        # one datum of infinite weight: entries (and what depends on it) are written as the strings "inf" / "nan"
        f = call(h.fill, w.records[case["inf_weight_fill"] % len(w.records)], float("inf"))
        if not f.ok:
            raise scn.violation(exc_site(f.exc)[0], "fill", "exception:%s" % type(f.exc).__name__, f.describe(), si)
        w.bump("probe_infinite_weight_state")
    if case.get("fills2") is not None:
        h2 = one(case["fills2"])
        o = call(lambda: h + h2)
        if o.ok:
            h = o.value
    for f in case.get("scales") or []:
        # scaled, possibly until the weights underflow to 0.0 (what stays - extrema, keys, means - is still a state)
        o = call(lambda f=f, h=h: h * f)
        if o.ok:
            h = o.value
    return h


class C15(Scenario):
    prop = "C15"
    level = "fault_enumeration"
    profiles = ["wire-corruption"]
    budgets = {"quick": 4000, "thorough": 60000}
    wall_caps = {"quick": 110, "thorough": 1500}
    block = 16
    rule = ("one run = one base document (toJson of a seeded tree after seeded fills and an optional merge, sent through "
            "json.dumps/loads) for which every single-point structural mutation at every position is enumerated: delete a "
            "required key, add an unknown key, retype a value to a JSON type the format does not allow there, rename a "
            "type to an unregistered name, truncate / retype / extend one element of a values/bins/data list, negative "
            "entries, incompatible or non-string version; plus the text cut at 6 seeded byte offsets. units_checked = "
            "mutants submitted to Factory.fromJson. Non-trivial: the document has >= 2 nested levels and >= 40 mutants. "
            "Distinct: hash of (tree shape, number of mutants).")
    assumptions = ["hgsim/grammar.py is the definition of 'valid serialisation' (hand-written from the specification; it is "
                   "self-tested against every document the library emits)", "booleans are never used to replace a number; "
                   "a document version is incompatible when its (major, minor) is newer than the implementation's specification version 1.1",
                   "any exception type counts as a rejection"]
    expected_faults = ["doc_struct_corrupt", "torn_write"]
    expected_probes = ["mutant_in_nested_child", "list_element_mutant", "type_rename_mutant"]

    def generate(self, rng, tier, profile):
        sp, recs, fills, fills2 = gen_base(rng, tier)
        f = rng.fork("faults")
        cuts = sorted(set(f.random() for _ in range(6)))
        return {"spec": sp, "records": [specmod.enc_record(r) for r in recs], "fills": fills, "fills2": fills2,
                "scales": f.pick([None, None, None, None, [2.0], [0.5, 3], [1e-200, 1e-200], [5e-324, 0.5]]),
                "inf_weight_fill": f.randrange(10) if f.chance(0.08) else None,
                "steps": [{"op": "enumerate", "only": None, "cuts": cuts}]}

    def run(self, case, w, R):
        import histogrammar as hg

        sp = case["spec"]
        h = make_state(self, w, case)
        raw = h.toJson()
        try:
            text = json.dumps(raw)
        except (TypeError, ValueError):
            w.bump("probe_base_state_not_serialisable")  # C04's business (strict JSON)
            return
        doc = json.loads(text)
        if not grammar.valid_document(observe.normalise(doc)):
            raise HarnessError("grammar rejects a document the library emitted: %s" % text[:500])
        # the unmutated document must load and re-serialise
        o = call(hg.Factory.fromJson, copy.deepcopy(doc))
        if not o.ok:
            raise self.violation(exc_site(o.exc)[0], "fromJson", "rejected-control:%s" % type(o.exc).__name__,
                                 "a document produced by toJson was rejected: %s" % o.describe(), 0, {"doc": doc})
        again = observe.normalise(o.value.toJson())
        underflow = any(abs(float(f_)) < 1e-100 for f_ in (case.get("scales") or []))
        if underflow:
            # weights scaled below the smallest double: entries 0.0 beside means / extrema / keys that stay. The document
            # must still be accepted (this property); what a reload makes of such a state is not demanded here
            w.bump("probe_underflow_state_accepted")

            def skeleton(x):
                # the document without its numbers: keys, bins, list lengths, type names
                if isinstance(x, dict):
                    return {k_: skeleton(v_) for k_, v_ in x.items()}
                if isinstance(x, list):
                    return [skeleton(v_) for v_ in x]
                return "#" if grammar.is_num(x) else x

            if skeleton(again) != skeleton(observe.normalise(doc)):
                d = observe.doc_diff(skeleton(observe.normalise(doc)), skeleton(again)) or ([], sp["p"], "?")
                raise self.violation(d[1], "fromJson", "dropped-content:%s" % d[2],
                                     "the reload of a valid document has another structure than the document (something was dropped or added at %s)" % (d[0],), 0,
                                     {"doc": observe.normalise(doc), "again": again})
        elif again != observe.normalise(doc):
            d = observe.doc_diff(observe.normalise(doc), again) or ([], sp["p"], "?")
            raise self.violation(d[1], "fromJson", "fixpoint:%s" % d[2], "reload of the unmutated document re-serialises differently", 0)
        st = case["steps"][0] if case["steps"] else {"only": None, "cuts": []}
        only = st.get("only")
        muts = list(grammar.struct_mutants(doc))
        if only is None and len(muts) > 4000:
            # a very large document: every k-th mutant (they are enumerated position by position, so the sample still
            # covers the whole document) - keeps one run within the watchdog in the thorough tier
            muts = muts[:: (len(muts) + 3999) // 4000]
            w.bump("probe_mutants_subsampled")
        units = 0
        nested = 0
        for desc, m in muts:
            if only is not None and desc != only:
                continue
            if grammar.valid_document(observe.normalise(m)):
                raise HarnessError("mutant %r is still inside the grammar" % desc)
            units += 1
            w.bump("fault_doc_struct_corrupt")
            if desc.count("/") >= 2:
                w.bump("probe_mutant_in_nested_child")
                nested += 1
            if desc.startswith("elem-"):
                w.bump("probe_list_element_mutant")
            if "rename-type" in desc or "type-unknown" in desc:
                w.bump("probe_type_rename_mutant")
            r = call(hg.Factory.fromJson, copy.deepcopy(m))
            if r.ok:
                kind, _, where = desc.partition(" ")
                prim = where.split("@")[0] if where else "Factory"
                import re

                kind = re.sub(r"\[[^\]]*\]", "[]", kind)
                raise self.violation(prim, "fromJson", "accepted:%s" % kind,
                                     "Factory.fromJson accepted a document with mutation %r and returned %r" % (desc, r.value), 0,
                                     {"mutation": desc, "mutant": m})
        # torn / short text
        if only is None or only.startswith("cut:"):
            for c in st.get("cuts", []):
                k = int(len(text) * c)
                if k >= len(text) or (only is not None and only != "cut:%d" % k):
                    continue
                units += 1
                w.bump("fault_torn_write")
                r = call(hg.Factory.fromJsonString, text[:k])
                if r.ok:
                    raise self.violation("Factory", "fromJsonString", "accepted:torn-text",
                                         "a document cut after %d of %d characters was loaded" % (k, len(text)), 0, {"cut": k})
        w.record_step({"op": "enumerate", "n": units}, {0: observe.obs_hash(observe.normalise(doc))})
        R["shape"] = "%s|%d" % (specmod.shape_key(sp), len(muts))
        R["nontrivial"] = nested >= 1 and len(muts) >= 40
        R["units"] = units

    def shrink(self, case):
        # first pin the single mutation that fails, then shrink the base state
        w = None
        st = case["steps"][0]
        if st.get("only") is None:
            res = self.execute(case)
            v = res.get("violation")
            if v and v.get("detail") and "mutation" in v["detail"]:
                c = copy.deepcopy(case)
                c["steps"][0]["only"] = v["detail"]["mutation"]
                yield c
        for key in ("fills", "fills2"):
            if case.get(key):
                c = copy.deepcopy(case)
                c[key] = c[key][:-1]
                # positions inside the document may shift: let the enumeration find the mutation again
                c["steps"][0]["only"] = None
                yield c
        if case.get("fills2") is not None:
            c = copy.deepcopy(case)
            c["fills2"] = None
            c["steps"][0]["only"] = None
            yield c
        for c in shrink_specs(case):
            c["steps"][0]["only"] = None
            yield c


SCENARIO = C15()
