"""C14 -- DataFrame filling is a homomorphism and agrees with direct filling
(scenario `frame-chunks`).

The driver runs make_histograms(df, ..., ret_specs=True) once to freeze
features / bin_specs / var_dtype; the rows are partitioned into non-empty chunks;
each executor calls make_histograms(chunk, features, bin_specs, var_dtype, ...);
partial dictionaries reach the reducer in seeded order and are merged
feature-wise with + in seeded grouping.
"""
import copy
import math

import numpy as np

from .. import observe, spec as specmod
from ..kernel import HarnessError, call, exc_site
from .base import Scenario, shrink_steps

T0 = 1577836800  # 2020-01-01 in seconds


def enc_val(v):
    if isinstance(v, float) and v != v:
        return "nan"
    if isinstance(v, float) and abs(v) == float("inf"):
        return "inf" if v > 0 else "-inf"
    return v


def make_frame(cols, rows=None, index=None):
    """rows: positions taken from the full table; index: row labels of the full table (None = RangeIndex).
    With ``index`` given the chunk keeps the labels of its rows (the way df.iloc[...] does)."""
    import pandas as pd

    d = {}
    for name, (kind, vals) in cols.items():
        vs = vals if rows is None else [vals[i] for i in rows]
        if kind == "float":
            d[name] = np.array([float("nan") if v == "nan" else float(v) for v in vs], dtype=np.float64)
        elif kind == "int":
            d[name] = np.array(vs, dtype=np.int64)
        elif kind.startswith("int:"):
            d[name] = np.array(vs, dtype=np.dtype(kind[4:]))
        elif kind == "bool":
            d[name] = np.array(vs, dtype=bool)
        elif kind == "ts":
            d[name] = pd.to_datetime(np.array(vs, dtype="int64") * 10 ** 9)
    df = pd.DataFrame(d)
    if index is not None:
        df.index = pd.Index(index if rows is None else [index[i] for i in rows])
    return df


class C14(Scenario):
    prop = "C14"
    level = "exploration"
    profiles = ["frame-chunks"]
    budgets = {"quick": 2000, "thorough": 40000}
    wall_caps = {"quick": 140, "thorough": 1800}
    block = 8
    rule = ("one run = one DataFrame (<= 60 rows; float columns with NaN, int, bool and timestamp columns), one request "
            "(1-4 features of 1-3 dimensions, binning auto / unit or explicit bin_specs of kinds num-low-high, binWidth-origin, "
            "edges, centers, thresholds, cut, fraction and - last dimension - maximize / minimize / average / deviate / sum / bag, with or without a time axis; one float column holds +-inf and values exactly on the upper edges), make_histograms(..., ret_specs=True) on the whole "
            "frame, then the same request with the frozen features / bin_specs / var_dtype on k row chunks, merged with + "
            "in seeded order and grouping; also a tree built by the harness from the frozen specs and filled with "
            "fill.numpy and, a second one, row by row. Non-trivial: >= 2 chunks, >= 1 feature with >= 2 dimensions, >= 8 rows. Distinct: hash of "
            "(column kinds, request, partition shape).")
    assumptions = ["string columns are outside the claim (pandas 3 string dtype breaks the filler before any histogram logic)",
                   "timestamp columns contain no NaT", "all histograms are Count-valued, so documents are compared exactly, after dropping categories / sparse bins whose "
                   "whole subtree holds zero weight (the vectorised filler creates them for every value present in a batch)"]
    expected_faults = ["reorder", "regroup"]
    expected_probes = ["feature_3d", "time_axis", "explicit_bin_specs", "nan_in_float_column", "bool_axis", "non_range_index",
                       "chunk_keeps_row_labels", "spec_kind_cut", "spec_kind_fraction", "spec_kind_sum", "spec_kind_average", "spec_kind_deviate",
                       "spec_kind_maximize", "spec_kind_minimize", "spec_kind_bag", "inf_in_float_column", "rowwise_direct_fill", "all_nan_column", "duplicate_feature"]

    def generate(self, rng, tier, profile):
        big = tier == "thorough"
        d = rng.fork("data")
        n = d.randint(2, 200 if (big and d.chance(0.2)) else 60)
        cols = {}
        cols["f1"] = ("float", [enc_val(d.pick([float("nan")] if d.chance(0.1) else [round(d.uniform(-3, 8), d.pick([0, 1, 3]))])) for _ in range(n)])
        cols["f2"] = ("float", [enc_val(d.pick([0.0, 0.5, 1.0, 1.5, 2.0, 2.5, float("nan"), -1.0, 10.0])) for _ in range(n)])
        has_inf, has_nan3 = d.chance(0.5), d.chance(0.3)
        cols["f3"] = ("float", [enc_val(d.pick([float("inf"), float("inf"), float("-inf")]) if (has_inf and d.chance(0.08)) else
                                        float("nan") if (has_nan3 and d.chance(0.1)) else
                                        d.pick([0.0, 0.5, 1.0, 2.0, 3.0, 4.5, 10.0, -1.0, 0.25, 1.0, 3.0])) for _ in range(n)])
        # a float column without any finite value (an empty measurement): automatic binning has no range to start from
        cols["f4"] = ("float", ["nan"] * n if d.chance(0.6) else [enc_val(d.pick([float("nan"), float("nan"), 1.5])) for _ in range(n)])
        cols["i1"] = ("int", [d.randint(-3, 12) for _ in range(n)])
        cols["i2"] = ("int", [d.pick([0, 1, 1, 2, 5, 100]) for _ in range(n)])
        # an integer column of another width (a uint8 image channel, an int16 ADC count) and a column whose name stands for a
        # float in one dataset and for an integer in the next one the same process looks at
        cols["i3"] = ("int:" + d.pick(["int8", "int16", "int32", "uint8", "uint16", "uint32", "uint64"]), [d.randint(0, 9) for _ in range(n)])
        if d.chance(0.5):
            cols["v1"] = ("float", [enc_val(d.pick([0.5, 1.0, 2.5, 3.0, float("nan")])) for _ in range(n)])
        else:
            cols["v1"] = ("int", [d.randint(0, 6) for _ in range(n)])
        cols["b1"] = ("bool", [d.chance(0.6) for _ in range(n)])
        cols["t1"] = ("ts", [T0 + d.randint(0, 400) * 86400 + d.pick([0, 3600, 86399]) for _ in range(n)])
        if d.chance(0.08):
            cols["t1"] = ("ts", [cols["t1"][1][0]] * n)  # every row carries the same time stamp (one batch, one file)
        t = rng.fork("tree")
        names = ["f1", "f2", "i1", "i2", "b1", "f3", "i3", "v1"] + (["f4"] if t.chance(0.25) else [])
        use_time = t.chance(0.3)
        feats = []
        for _ in range(t.randint(1, 4)):
            k = t.pick([1, 1, 2, 2, 3])
            f = t.sample(names, k)
            if use_time:
                f = ["t1"] + f[: 2]
            elif t.chance(0.15):
                f = (["t1"] + f)[:3]
            if f not in feats:
                feats.append(f)
        dup = t.chance(0.08)  # the same feature asked for twice is still one histogram, filled once
        binning = t.pick(["auto", "auto", "unit"])
        bin_specs = {}
        explicit = t.chance(0.5)
        for f in feats:
            # f3 may hold +-inf: it is only ever used with explicit specifications (automatic binning needs a finite range)
            if "f3" in f or (explicit and t.chance(0.6)):
                specs = []
                for ci, c in enumerate(f):
                    kind = cols[c][0]
                    if kind in ("bool",):
                        specs.append({})
                    elif c == "t1":
                        specs.append({"binWidth": float(t.pick([7, 30, 90]) * 86400 * 10 ** 9), "origin": float(T0 * 10 ** 9)})
                    else:
                        menu = [{"num": t.pick([2, 4, 5]), "low": t.pick([-1.0, 0.0, 0.5]), "high": t.pick([3.0, 4.5, 10.0])},
                                {"binWidth": t.pick([0.5, 1.0, 2.0, 0.1]), "origin": t.pick([0.0, 0.25, -1.0])},
                                {"edges": [0.0, 1.0, 2.5]}, {"centers": [0.0, 1.0, 3.0]}, {"thresholds": [0.5, 2.0]}]
                        if c in ("f3", "f2", "i2") and ci < 2:
                            menu += [{"cut": True}, {"fraction": True}] * (2 if c == "f3" else 1)
                        if ci == len(f) - 1 and c != "f3" and t.chance(0.25):
                            menu = [{"maximize": True}, {"minimize": True}, {"average": True}, {"deviate": True}, {"sum": True}, {"bag": True, "range": "N"}]
                        specs.append(t.pick(menu))
                bin_specs[":".join(f)] = specs[0] if len(f) == 1 else specs
        s = rng.fork("schedule")
        k = s.randint(1, min(6, n))
        assign = [s.randrange(k) for _ in range(n)]
        chunks = [[i for i in range(n) if assign[i] == c] for c in range(k)]
        chunks = [c for c in chunks if c]
        order = list(range(len(chunks)))
        s.shuffle(order)
        steps = [{"op": "whole"}]
        chunk_mode = s.pick(["fresh", "iloc", "iloc"])
        for c in order:
            steps.append({"op": "chunk", "rows": chunks[c], "how": chunk_mode})
        m = len(chunks)
        pend = list(range(m))
        nxt = m
        while len(pend) > 1:
            a, b = s.sample(pend, 2)
            pend.remove(a)
            pend.remove(b)
            steps.append({"op": "merge", "l": a, "r": b, "out": nxt})
            pend.append(nxt)
            nxt += 1
        steps.append({"op": "final", "obj": pend[0]})
        # a frame prepared for the request: it holds exactly the columns the features name (round 6: a filler that works on
        # the caller's frame instead of a selection of it is only visible when there is nothing to drop)
        if rng.fork("frame").chance(0.3):
            used = set(c for f in feats for c in f)
            cols = {k_: v for k_, v in cols.items() if k_ in used}
        return {"cols": {k_: [v[0], v[1]] for k_, v in cols.items()}, "features": [":".join(f) for f in feats] + ([":".join(feats[0])] if dup else []),
                "binning": binning,
                "bin_specs": bin_specs, "time_axis": "t1" if use_time else "", "steps": steps, "records": [],
                # the binning of the time axis as make_histograms derives it from time_width / time_offset (only the first run
                # is told; the later ones get what that run returned)
                "time_width": t.pick([None, None, "1w", "90d", 14 * 86400e9]) if use_time else None,
                "time_offset": t.pick([None, None, "2019-12-30", 0]) if use_time else None,
                "index_mode": s.pick([None, None, "offset", "shuffled", "strings", "duplicates"])}

    # ------------------------------------------------------------------
    def _direct(self, feature, bin_specs, var_dtype, time_axis, df, rowwise=False):
        """a tree built by the harness from the frozen specs, filled from the columns: with fill.numpy, or row by row"""
        import histogrammar as hg
        import pandas as pd

        cols = feature.split(":")
        h = hg.Count()
        spec = bin_specs.get(feature)
        for idx in reversed(range(len(cols))):
            c = cols[idx]
            dt = np.dtype(var_dtype[c])
            if len(cols) > 1 and isinstance(spec, list) and len(spec) == len(cols) and spec[idx]:
                sp = spec[idx]
            elif len(cols) == 1 and isinstance(spec, dict):
                sp = spec
            else:
                sp = bin_specs.get(c) if isinstance(bin_specs.get(c), dict) else None
                if sp is None:
                    if np.issubdtype(dt, np.datetime64):
                        sp = {"binWidth": pd.Timedelta(days=30).value, "origin": pd.Timestamp("2010-01-04").value}
                    else:
                        sp = {"binWidth": 1.0, "origin": 0.0}
            q = eval("lambda x, c=%r: x[c]" % c, {})
            if np.issubdtype(dt, np.bool_):
                h = hg.Categorize(q, h)
            elif "binWidth" in sp:
                h = hg.SparselyBin(sp["binWidth"], q, h, origin=sp.get("origin", 0.0))
            elif "num" in sp:
                h = hg.Bin(int(sp["num"]), sp["low"], sp["high"], q, h)
            elif "edges" in sp:
                h = hg.IrregularlyBin(list(sp["edges"]), q, h)
            elif "centers" in sp:
                h = hg.CentrallyBin(list(sp["centers"]), q, h)
            elif "thresholds" in sp:
                h = hg.Stack(list(sp["thresholds"]), q, h)
            elif "maximize" in sp:
                h = hg.Maximize(q)
            elif "minimize" in sp:
                h = hg.Minimize(q)
            elif "average" in sp:
                h = hg.Average(q)
            elif "deviate" in sp:
                h = hg.Deviate(q)
            elif "sum" in sp:
                h = hg.Sum(q)
            elif "bag" in sp or "range" in sp:
                h = hg.Bag(q, sp.get("range", "N"))
            elif "fraction" in sp:
                h = hg.Fraction(q, h)
            elif "cut" in sp:
                h = hg.Select(q, h)
            else:
                raise HarnessError("unknown spec %r" % (sp,))
        data = {}
        for c in cols:
            if np.issubdtype(np.dtype(var_dtype[c]), np.datetime64):
                data[c] = df[c].values.astype("datetime64[ns]").astype("int64")
            else:
                data[c] = df[c].values
        if rowwise:
            for i in range(len(df)):
                h.fill({c: data[c][i].item() for c in cols})
        else:
            h.fill.numpy(data)
        return h

    def _near_edge(self, feature, bin_specs, var_dtype, df):
        cols = feature.split(":")
        spec = bin_specs.get(feature)
        for idx, c in enumerate(cols):
            sp = spec[idx] if isinstance(spec, list) and len(spec) == len(cols) else spec if isinstance(spec, dict) else bin_specs.get(c)
            if not sp:
                sp = bin_specs.get(c)  # an empty entry of a multi-dimensional specification: the column's own one applies
            if not isinstance(sp, dict) or np.issubdtype(np.dtype(var_dtype[c]), np.datetime64) or np.issubdtype(np.dtype(var_dtype[c]), np.bool_):
                continue
            vals = [float(v) for v in df[c].values if v == v and abs(float(v)) != float("inf")]
            if "num" in sp:
                lo, hi, n_ = float(sp["low"]), float(sp["high"]), int(sp["num"])
                wd = (hi - lo) / n_
                if float(wd * 8).is_integer() and float(lo * 8).is_integer():
                    continue
                for v in vals:
                    k = (v - lo) / wd
                    if abs(k - round(k)) < 1e-9 * max(1.0, abs(k)):
                        return True
            elif "binWidth" in sp or "bin_width" in sp:
                bw, og = float(sp.get("binWidth", sp.get("bin_width", 1.0))), float(sp.get("origin", sp.get("bin_offset", 0.0)))
                if float(bw * 8).is_integer() and float(og * 8).is_integer():
                    continue
                for v in vals:
                    k = (v - og) / bw
                    if abs(k - round(k)) < 1e-9 * max(1.0, abs(k)):
                        return True
        return False

    def _docs(self, hists):
        return {k: _norm(observe.observe(v)) for k, v in hists.items()}

    def run(self, case, w, R):
        from histogrammar.dfinterface.make_histograms import make_histograms

        cols = {k: tuple(v) for k, v in case["cols"].items()}
        n = len(next(iter(cols.values()))[1])
        imode = case.get("index_mode")
        if imode == "offset":
            labels = [1000 + 3 * i for i in range(n)]
        elif imode == "shuffled":
            labels = [(i * 7919 + 13) % max(n, 1) if math.gcd(7919, max(n, 1)) == 1 else n - 1 - i for i in range(n)]
        elif imode == "strings":
            labels = ["r%03d" % ((i * 31) % 997) + str(i) for i in range(n)]
        elif imode == "duplicates":
            labels = [i % 3 for i in range(n)]  # row labels are not unique (frames concatenated without ignore_index)
            w.bump("probe_duplicate_row_labels")
        else:
            labels = None
        df = make_frame(cols, None, labels)
        if labels is not None:
            w.bump("probe_non_range_index")
        feats = [f for f in case["features"]]
        kw = dict(binning=case["binning"], time_axis=case["time_axis"])
        for k_ in ("time_width", "time_offset"):
            if case.get(k_) is not None:
                kw[k_] = case[k_]
                w.bump("probe_time_binning_derived")
        R["shape"] = observe.obs_hash({"feats": feats, "bs": case["bin_specs"], "kw": kw, "n": n,
                                       "parts": [len(s.get("rows", [])) for s in case["steps"] if s["op"] == "chunk"]})
        frozen = None
        whole_docs = None
        parts = {}
        nchunks = 0
        for si, st in enumerate(case["steps"]):
            op = st["op"]
            if op == "whole":
                keep = df.copy(deep=True)
                o = call(make_histograms, df, features=list(feats), bin_specs=copy.deepcopy(case["bin_specs"]) or None, ret_specs=True, **kw)
                if not o.ok:
                    raise self.violation(exc_site(o.exc)[0], "make_histograms", "exception:%s" % type(o.exc).__name__,
                                         "make_histograms on the whole frame raised %s" % o.describe(), si)
                hists, f_r, bs_r, ta_r, vd_r = o.value
                if not df.equals(keep):
                    raise self.violation("make_histograms", "make_histograms", "input-mutated", "the input dataframe was modified", si)
                frozen = (list(f_r), copy.deepcopy(bs_r), ta_r, dict(vd_r))
                if sorted(set(f_r)) != sorted(set(feats)):
                    raise self.violation("make_histograms", "make_histograms", "content:features",
                                         "requested features %s, returned %s" % (feats, f_r), si)
                whole_docs = self._docs(hists)
                for name, h in hists.items():
                    if h.entries != n:
                        raise self.violation(type(h).__name__, "make_histograms", "invariant:total-weight",
                                             "histogram %r has entries %r for %d rows" % (name, h.entries, n), si, {"doc": whole_docs[name]})
                # frozen specs must reproduce identical binning on the same frame
                o2 = call(make_histograms, df, features=list(f_r), bin_specs=copy.deepcopy(bs_r), var_dtype=dict(vd_r), time_axis=ta_r, binning=case["binning"])
                if not o2.ok:
                    raise self.violation(exc_site(o2.exc)[0], "make_histograms", "exception:%s" % type(o2.exc).__name__,
                                         "re-running with the returned specs raised %s" % o2.describe(), si)
                again = self._docs(o2.value)
                self._cmp(whole_docs, again, "frozen-specs", si)
                # direct filling through the primitive API
                for name in f_r:
                    dh = call(self._direct, name, bs_r, vd_r, ta_r, df)
                    if not dh.ok:
                        raise self.violation(exc_site(dh.exc)[0], "direct-fill", "exception:%s" % type(dh.exc).__name__, dh.describe(), si)
                    dd = _norm(observe.observe(dh.value))
                    if dd != whole_docs[name]:
                        d = observe.doc_diff(whole_docs[name], dd) or ([], "?", "?")
                        raise self.violation(d[1], "make_histograms", "content:%s" % d[2],
                                             "histogram %r differs from a tree built from the returned specs and filled with fill.numpy at %s (%s.%s)" % (
                                                 name, d[0], d[1], d[2]), si, {"make_histograms": whole_docs[name], "direct": dd})
                    # ... and row by row (sums of the leaf kinds are accumulated in another order: tolerance)
                    rh = call(self._direct, name, bs_r, vd_r, ta_r, df, True)
                    if not rh.ok:
                        raise self.violation(exc_site(rh.exc)[0], "direct-fill", "exception:%s" % type(rh.exc).__name__, rh.describe(), si)
                    rd = _norm(observe.observe(rh.value))
                    w.bump("probe_rowwise_direct_fill")
                    if rd != whole_docs[name]:
                        scale = max([1.0] + [abs(float(v)) for kind, vals in cols.values() if kind in ("float", "int") or kind.startswith("int:") for v in vals
                                             if v != "nan" and abs(float(v)) != float("inf")])
                        d = observe.doc_diff(whole_docs[name], rd, observe.Tol(n=16 * n, scale=scale, sums=True))
                        if d is not None and self._near_edge(name, bs_r, vd_r, df):
                            # a value within rounding distance of a computed (non-dyadic) bin edge: row-wise and vectorised
                            # index arithmetic may legitimately differ there (C03's assumption)
                            w.bump("probe_near_edge_skip")
                            d = None
                        if d is not None:
                            raise self.violation(d[1], "make_histograms", "rowwise:%s" % d[2],
                                                 "histogram %r differs from the same tree filled row by row at %s (%s.%s)" % (name, d[0], d[1], d[2]), si,
                                                 {"make_histograms": whole_docs[name], "direct": rd})
                if any(f.count(":") >= 2 for f in f_r):
                    w.bump("probe_feature_3d")
                if ta_r:
                    w.bump("probe_time_axis")
                if case["bin_specs"]:
                    w.bump("probe_explicit_bin_specs")
                if any(v == "nan" for v in cols.get("f1", (0, []))[1] + cols.get("f2", (0, []))[1]):
                    w.bump("probe_nan_in_float_column")
                if any("b1" in f for f in f_r):
                    w.bump("probe_bool_axis")
                if any("f4" in f.split(":") for f in f_r) and all(v == "nan" for v in cols["f4"][1]):
                    w.bump("probe_all_nan_column")
                if len(set(feats)) < len(feats):
                    w.bump("probe_duplicate_feature")
                if set(cols) == set(c for f in f_r for c in f.split(":")):
                    w.bump("probe_frame_has_only_requested_columns")
                for kind_ in ("cut", "fraction", "sum", "average", "deviate", "maximize", "minimize", "bag"):
                    if ("'%s'" % kind_) in repr(bs_r):
                        w.bump("probe_spec_kind_" + kind_)
                if any(v in ("inf", "-inf") for v in cols.get("f3", (0, []))[1]) and any("f3" in f for f in f_r):
                    w.bump("probe_inf_in_float_column")
            elif op == "chunk":
                if frozen is None or not st["rows"] or any(i >= n for i in st["rows"]):
                    continue
                f_r, bs_r, ta_r, vd_r = frozen
                keep_labels = st.get("how") == "iloc"
                cdf = make_frame(cols, st["rows"], labels if labels is not None else (list(range(n)) if keep_labels else None)) \
                    if (keep_labels or labels is not None) else make_frame(cols, st["rows"])
                if keep_labels:
                    w.bump("probe_chunk_keeps_row_labels")
                keep = cdf.copy(deep=True)
                o = call(make_histograms, cdf, features=list(f_r), bin_specs=copy.deepcopy(bs_r), var_dtype=dict(vd_r), time_axis=ta_r, binning=case["binning"])
                if not o.ok:
                    raise self.violation(exc_site(o.exc)[0], "make_histograms", "exception:%s" % type(o.exc).__name__,
                                         "make_histograms on a chunk of %d rows with the frozen specs raised %s" % (len(st["rows"]), o.describe()), si)
                if not cdf.equals(keep):
                    raise self.violation("make_histograms", "make_histograms", "input-mutated", "the chunk dataframe was modified", si)
                for name, h in o.value.items():
                    if h.entries != len(st["rows"]):
                        raise self.violation(type(h).__name__, "make_histograms", "invariant:total-weight",
                                             "chunk histogram %r has entries %r for %d rows" % (name, h.entries, len(st["rows"])), si)
                parts[nchunks] = (o.value, list(st["rows"]))
                nchunks += 1
            elif op == "merge":
                if st["l"] not in parts or st["r"] not in parts:
                    continue
                (a, ra), (b, rb) = parts[st["l"]], parts[st["r"]]
                out = {}
                for name in a:
                    o = call(lambda: a[name] + b[name])
                    if not o.ok:
                        raise self.violation(exc_site(o.exc)[0], "add", "exception:%s" % type(o.exc).__name__,
                                             "histograms of feature %r made from two chunks with the same frozen specs cannot be added: %s" % (name, o.describe()), si)
                    out[name] = o.value
                parts[st["out"]] = (out, ra + rb)
                w.bump("fault_regroup")
                if st["l"] > st["r"]:
                    w.bump("fault_reorder")
            elif op == "final":
                if st["obj"] not in parts or whole_docs is None:
                    continue
                red, rows = parts[st["obj"]]
                if sorted(rows) != list(range(n)):
                    continue  # the minimiser removed a chunk: the reduction no longer covers the frame
                inexact = any(k in repr(frozen[1]) for k in ("'sum'", "'average'", "'deviate'"))
                scale = max([1.0] + [abs(float(v)) for kind, vals in cols.values() if kind in ("float", "int") or kind.startswith("int:") for v in vals
                                     if v != "nan" and abs(float(v)) != float("inf")])
                red_docs = self._docs(red)
                # an infinite value in the batch switches a Bin of Counts from np.histogram to the generic path (12.7, non-dyadic
                # edges): a chunk without the infinity and the whole frame then disagree about a value that sits on a computed edge
                edgy = [nm for nm in whole_docs if any(abs(float(v)) == float("inf") for c_ in nm.split(":") if cols.get(c_, ("", []))[0] == "float"
                                                        for v in cols[c_][1] if v != "nan") and self._near_edge(nm, frozen[1], frozen[3], df)]
                if edgy:
                    w.bump("probe_near_edge_skip_partition")
                self._cmp({k_: v for k_, v in whole_docs.items() if k_ not in edgy}, {k_: v for k_, v in red_docs.items() if k_ not in edgy},
                          "partition-invariance", si, observe.Tol(n=16 * n, scale=scale, sums=True) if inexact else None)
            w.record_step(st)
        R["nontrivial"] = nchunks >= 2 and any(":" in f for f in feats) and n >= 8
        R["units"] = nchunks

    def _cmp(self, a, b, label, si, tol=None):
        for name in sorted(a):
            if name not in b:
                raise self.violation("make_histograms", "make_histograms", "%s:missing" % label, "feature %r missing" % name, si)
            if a[name] != b[name]:
                d = observe.doc_diff(a[name], b[name], tol) if tol is not None else (observe.doc_diff(a[name], b[name]) or ([], "?", "?"))
                if d is None:
                    continue
                raise self.violation(d[1], "make_histograms", "%s:%s" % (label, d[2]),
                                     "%s: histogram %r differs at %s (%s.%s)" % (label, name, d[0], d[1], d[2]), si,
                                     {"whole": a[name], "other": b[name]})

    def shrink(self, case):
        yield from shrink_steps(case)
        if len(case["features"]) > 1:
            for i in range(len(case["features"])):
                c = copy.deepcopy(case)
                f = c["features"].pop(i)
                c["bin_specs"].pop(f, None)
                yield c


def _norm(doc):
    """content of a histogram: names stripped, categories / sparse bins that hold zero weight dropped (the vectorised
    filler creates a bin for every value it sees in a batch, even with zero weight -- C03 allows that)"""
    doc = _strip(doc)
    return {"type": doc["type"], "data": observe.drop_empty(doc["type"], doc["data"]), "version": doc["version"]}


def _strip(doc):
    """drop quantity names (make_histograms uses anonymous lambdas with defaults; the harness its own)"""
    if isinstance(doc, dict):
        return {k: _strip(v) for k, v in doc.items() if k != "name" and not k.endswith(":name")}
    if isinstance(doc, list):
        return [_strip(v) for v in doc]
    return doc


SCENARIO = C14()
