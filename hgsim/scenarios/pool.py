"""Pool histories: several tasks own aggregators in one pool; a seeded scheduler
interleaves every operation a property lists.  Shared by C04, C05, C06, C07, C08, C11.

Generation works on abstract handles (spec index, mutable?, alive?) so that the
step list is a pure function of the seed; execution interprets the concrete
steps with skip-invalid semantics (a step whose handles do not exist is skipped).
"""
import copy
import math

from .. import gate, grammar, observe, spec as specmod
from ..kernel import HarnessError, box_fingerprint, call, exc_site, make_box, weights_arg
from .base import Scenario, h16

FACTORS_POS = [0.5, 2.0, 1.0, 0.25, 4.0, 3, 1.5, 2]
FACTORS_ODD = [0.0, -1.0, float("nan"), 0, -2]


class Abstract:
    """Generator-side view of the pool."""

    def __init__(self):
        self.next = 0
        self.objs = {}  # handle -> dict(k=spec index, mut=bool, via=str)

    def new(self, k, mut, via, **kw):
        self.next += 1
        d = {"k": k, "mut": mut, "via": via}
        d.update(kw)
        self.objs[self.next] = d
        return self.next

    def handles(self, k=None, mut=None):
        return [h for h, o in self.objs.items() if (k is None or o["k"] == k) and (mut is None or o["mut"] == mut)]


class PoolScenario(Scenario):
    # knobs for subclasses ----------------------------------------------------
    ops = {}  # op name -> weight
    regimes = ["dyadic"]
    max_steps = {"quick": 40, "thorough": 120}
    pool_cap = {"quick": 8, "thorough": 12}
    n_specs = 1
    wires = ["json", "jsonstr", "file", "pickle"]
    boxes = ["dict", "frame", "rec"]
    factors_odd = 0.15
    fill_reloaded_too = False
    inf_row_weights = 0.0
    odd_row_weights = 0.0  # share of negative / NaN entries in the weight arrays of fill.numpy (fill ignores such weights)
    spec_opts = {}
    record_opts = {"no_none": True, "numeric_cuts": False}
    owners = ["T1", "T2", "T3"]

    # ------------------------------------------------------------------ generation
    def gen_workload(self, rng, tier, profile):
        big = tier == "thorough"
        regime = rng.fork("knobs").pick(self.regimes)
        o = dict(depth=5 if big else 4, max_nodes=40 if big else 24, regime=regime)
        o.update(self.spec_opts)
        opts = specmod.merge_opts(**o)
        t = rng.fork("tree")
        specs = [specmod.gen_spec(t, opts) for _ in range(self.n_specs)]
        d = rng.fork("data")
        crit = {"x": [], "y": []}
        for sp in specs:
            c = specmod.critical_values(sp, regime)
            crit["x"] += c["x"]
            crit["y"] += c["y"]
        n = d.randint(4, 60 if big else 24)
        recs = [specmod.gen_record(d, crit, self.record_opts) for _ in range(n)]
        return specs, recs, regime

    def gen_step(self, rng, ab, specs, recs, tier, si):
        """-> list of steps (possibly empty)"""
        s = rng
        menu = [(op, wt) for op, wt in self.ops.items() if self.op_enabled(op, ab)]
        if not menu:
            return []
        op = s.wpick(menu)
        actor = s.pick(self.owners)
        st = {"op": op, "actor": actor, "t": si}
        if op == "new":
            k = s.randrange(len(specs))
            st.update(spec=k, out=ab.new(k, True, "ctor"))
        elif op == "fill":
            # (fill_reloaded_too: an object that adopted bins from a reloaded operand, or a reload itself, is tried as well -
            # the fill may legitimately raise "immutable container", but what it changes is still watched)
            h = s.pick(ab.handles() if (self.fill_reloaded_too and s.chance(0.25)) else ab.handles(mut=True))
            st.update(obj=h, rec=s.randrange(len(recs)), w=specmod.enc_float(self.pick_weight(s)))
        elif op == "fillnumpy":
            # a tree without any quantity cannot learn the number of rows: fill.numpy is undefined for it
            hs = [h for h in ab.handles(mut=True) if self.has_quantity(specs, ab.objs[h]["k"])]
            if not hs:
                return []
            h = s.pick(hs)
            nrows = s.pick([0, 1, 2, 3, 5, 8])
            rows = [s.randrange(len(recs)) for _ in range(nrows)]
            wform = s.pick(["one", "one", "array", "array", 0.5, 2.0, 1.0])
            st.update(obj=h, rows=rows, weights=wform, box=s.pick(self.boxes))
            if wform == "array" and s.chance(0.12):
                st["row_weights"] = [s.pick(specmod.NEAR_ONE_WEIGHTS) for _ in rows]
            elif wform == "array" and self.inf_row_weights and s.chance(self.inf_row_weights):
                # one row of infinite weight among ordinary ones
                st["row_weights"] = [s.pick(specmod.POS_WEIGHTS) for _ in rows]
                if rows:
                    st["row_weights"][s.randrange(len(rows))] = "inf"
            elif wform == "array":
                st["row_weights"] = [specmod.enc_float(s.pick(specmod.ODD_WEIGHTS)) if s.chance(self.odd_row_weights) else s.pick(specmod.POS_WEIGHTS + [0.0, 0.0])
                                     for _ in rows]
        elif op in ("add", "iadd"):
            hs = ab.handles()
            l = s.pick(hs)
            cands = [h for h in hs if ab.objs[h]["k"] == ab.objs[l]["k"] and (op == "add" or h != l)]
            if not cands:
                return []
            r = s.pick(cands)
            st.update(l=l, r=r)
            if op == "add":
                # (the sum keeps the left operand's templates: with fill_reloaded_too it counts as fillable even if the right
                # operand was a reload - fills into bins adopted from it may raise, which that scenario tolerates)
                st["out"] = ab.new(ab.objs[l]["k"], ab.objs[l]["mut"] and (ab.objs[r]["mut"] or self.fill_reloaded_too), "add")
            else:
                # bins adopted from an immutable (reloaded) operand cannot be filled afterwards
                ab.objs[l]["mut"] = ab.objs[l]["mut"] and ab.objs[r]["mut"]
        elif op == "mul":
            h = s.pick(ab.handles())
            f = s.pick(FACTORS_ODD) if s.chance(self.factors_odd) else s.pick(FACTORS_POS)
            st.update(obj=h, f=specmod.enc_float(f), side=s.pick(["r", "l"]), out=ab.new(ab.objs[h]["k"], ab.objs[h]["mut"], "mul"))
        elif op in ("zero", "copy"):
            h = s.pick(ab.handles())
            st.update(obj=h, out=ab.new(ab.objs[h]["k"], ab.objs[h]["mut"], op))
        elif op == "iadd_many":
            hs = ab.handles(mut=True)
            if not hs:
                return []
            st.update(obj=s.pick(hs), n=s.pick([300, 600, 1100]))
        elif op == "immutable":
            h = s.pick(ab.handles())
            st.update(obj=h, out=ab.new(ab.objs[h]["k"], False, op))
        elif op == "ship":
            h = s.pick(ab.handles())
            wire = s.pick(self.wires)
            mut = ab.objs[h]["mut"] and wire == "pickle"
            st.update(obj=h, wire=wire, out=ab.new(ab.objs[h]["k"], mut, "ship:" + wire))
        elif op == "read":
            hs = ab.handles()
            h = s.pick(hs)
            st.update(obj=h, what=s.pick(["toJson", "eq", "hash", "repr", "ne", "toJsonString", "accessors"]), other=s.pick(hs))
        elif op == "scribble":
            st.update(obj=s.pick(ab.handles()))
        elif op == "drop":
            hs = ab.handles()
            if len(hs) <= 2:
                return []
            h = s.pick(hs)
            del ab.objs[h]
            st.update(obj=h)
        else:
            return self.gen_special(op, st, s, ab, specs, recs)
        return [st]

    def gen_special(self, op, st, s, ab, specs, recs):
        raise HarnessError("unknown op %r" % op)

    def pick_weight(self, s):
        return s.pick(specmod.POS_WEIGHTS)

    def has_quantity(self, specs, k):
        return any(sp["p"] in specmod.HAS_Q and (sp.get("q") or {}).get("kind") != "unweighted" for _, sp in specmod.walk(specs[k]))

    def op_enabled(self, op, ab):
        n = len(ab.objs)
        if op == "new":
            return True
        if n == 0:
            return False
        if op in ("fill", "fillnumpy"):
            return bool(ab.handles(mut=True))
        if op == "drop":
            return n > 2
        return True

    def generate(self, rng, tier, profile):
        specs, recs, regime = self.gen_workload(rng, tier, profile)
        s = rng.fork("schedule")
        ab = Abstract()
        steps = []
        # every pool starts with two independently constructed trees per spec
        for k in range(len(specs)):
            for _ in range(2):
                steps.append({"op": "new", "spec": k, "out": ab.new(k, True, "ctor"), "actor": s.pick(self.owners), "t": 0})
        nmax = s.randint(6, self.max_steps[tier])
        cap = self.pool_cap[tier]
        for si in range(nmax):
            if len(ab.objs) >= cap:
                hs = ab.handles()
                h = s.pick(hs)
                del ab.objs[h]
                steps.append({"op": "drop", "obj": h, "actor": "GC", "t": si})
            steps += self.gen_step(s, ab, specs, recs, tier, si)
        return {"specs": specs, "records": [specmod.enc_record(r) for r in recs], "steps": steps, "regime": regime,
                "profile_knobs": {}}

    # ------------------------------------------------------------------ execution helpers
    def lib(self, o, what, step, hint=None):
        """an operation the property says must succeed"""
        if not o.ok:
            site = exc_site(o.exc)
            raise self.violation(hint or site[0], what, "exception:%s" % type(o.exc).__name__,
                                 "%s raised %s" % (what, o.describe()), step)
        return o.value

    def apply(self, w, st, si):
        """Execute one generic step.  Returns (Outcome | None, writes:set of handles)."""
        import histogrammar as hg

        op = st["op"]
        w.info = {}
        if op == "new":
            o = w.build(st["spec"])
            if o.ok:
                w.put(st["out"], o.value, k=st["spec"], via="ctor", mut=True)
            return o, set()
        if op == "drop":
            w.heap.pop(st["obj"], None)
            w.meta.pop(st["obj"], None)
            return None, set()
        if op == "fill":
            if not w.has(st["obj"]) or st["rec"] >= len(w.records):
                return None, set()
            h = w.heap[st["obj"]]
            return call(h.fill, w.records[st["rec"]], specmod.dec_float(st["w"])), {st["obj"]}
        if op == "fillnumpy":
            if not w.has(st["obj"]) or any(r >= len(w.records) for r in st["rows"]):
                return None, set()
            h = w.heap[st["obj"]]
            if not hasattr(h.fill, "numpy") or not (st.get("any_tree") or self.has_quantity(w.specs, w.meta[st["obj"]]["k"])):
                return None, set()  # a bare Count has no fill.numpy; a tree without quantities cannot learn the row count
            box = make_box(w.records, st["rows"], st["box"])
            fp = box_fingerprint(box)
            wa = weights_arg(w.records, st["rows"], st["weights"], st.get("row_weights", []))
            fpw = None if not hasattr(wa, "tolist") else repr(wa.tolist())
            if wa is None:
                o = call(h.fill.numpy, box)
            else:
                o = call(h.fill.numpy, box, wa)
            w.info["box_changed"] = box_fingerprint(box) != fp or (fpw is not None and repr(wa.tolist()) != fpw)
            w.bump("fault_batch_split")
            return o, {st["obj"]}
        if op == "add":
            if not w.has(st["l"], st["r"]):
                return None, set()
            a, b = w.heap[st["l"]], w.heap[st["r"]]
            o = call(lambda: a + b)
            if o.ok:
                w.put(st["out"], o.value, k=w.meta[st["l"]]["k"], via="add",
                      mut=w.meta[st["l"]]["mut"] and w.meta[st["r"]]["mut"])
            return o, set()
        if op == "iadd":
            if not w.has(st["l"], st["r"]) or st["l"] == st["r"]:
                return None, set()
            a, b = w.heap[st["l"]], w.heap[st["r"]]

            def f():
                x = a
                x += b
                return x

            o = call(f)
            if o.ok:
                w.meta[st["l"]]["mut"] = w.meta[st["l"]].get("mut", True) and w.meta[st["r"]].get("mut", True)
            if o.ok and o.value is not a:
                w.heap[st["l"]] = o.value  # what the caller's variable would now hold
                w.info["identity_changed"] = True
            return o, {st["l"]}
        if op == "mul":
            if not w.has(st["obj"]):
                return None, set()
            a = w.heap[st["obj"]]
            f = specmod.dec_float(st["f"])
            o = call((lambda: a * f) if st["side"] == "r" else (lambda: f * a))
            if o.ok:
                w.put(st["out"], o.value, k=w.meta[st["obj"]]["k"], via="mul", mut=w.meta[st["obj"]]["mut"])
            return o, set()
        if op in ("zero", "copy"):
            if not w.has(st["obj"]):
                return None, set()
            a = w.heap[st["obj"]]
            o = call(a.zero if op == "zero" else a.copy)
            if o.ok:
                w.put(st["out"], o.value, k=w.meta[st["obj"]]["k"], via=op, mut=w.meta[st["obj"]]["mut"])
            return o, set()
        if op == "iadd_many":
            # a long-running accumulator: the same object is the target of += hundreds of times (here with empty partials)
            if not w.has(st["obj"]):
                return None, set()
            a = w.heap[st["obj"]]

            def many():
                x = a
                z = a.zero()
                for _ in range(int(st["n"])):
                    x += z
                return x

            o = call(many)
            if o.ok and o.value is not a:
                w.heap[st["obj"]] = o.value
            w.bump("probe_many_inplace_merges")
            return o, {st["obj"]}
        if op == "immutable":
            if not w.has(st["obj"]):
                return None, set()
            o = call(w.heap[st["obj"]].toImmutable)
            if o.ok:
                w.put(st["out"], o.value, k=w.meta[st["obj"]]["k"], via="toImmutable", mut=False)
            return o, set()
        if op == "ship":
            if not w.has(st["obj"]):
                return None, set()
            o = w.ship(w.heap[st["obj"]], st["wire"], "ckpt%d.json" % si)
            if o.ok:
                w.put(st["out"], o.value, k=w.meta[st["obj"]]["k"], via="ship:" + st["wire"],
                      mut=w.meta[st["obj"]]["mut"] and st["wire"] in ("pickle", "ref"))
            return o, set()
        if op == "read":
            if not w.has(st["obj"]):
                return None, set()
            a = w.heap[st["obj"]]
            b = w.heap.get(st.get("other"), a)
            what = st["what"]
            if what == "toJson":
                return call(a.toJson), set()
            if what == "toJsonString":
                return call(a.toJsonString), set()
            if what == "eq":
                return call(lambda: a == b), set()
            if what == "ne":
                return call(lambda: a != b), set()
            if what == "hash":
                return call(hash, a), set()
            if what == "repr":
                return call(repr, a), set()
            if what == "accessors":
                def acc():
                    out = []
                    for nm in ("entries", "children", "n_dim", "datatype", "name", "factory"):
                        try:
                            out.append(getattr(a, nm))
                        except Exception:
                            pass
                    # bin_entries / bin_edges / bin_centers are not called: on a sparse histogram that holds +-inf they
                    # enumerate 2**64 bins (C13's territory)
                    for nm in ("num_bins", "bin_width", "bin_labels"):
                        m = getattr(a, nm, None)
                        if callable(m):
                            try:
                                m()
                            except Exception:
                                pass
                    return len(out)
                return call(acc), set()
            raise HarnessError("unknown read %r" % what)
        if op == "scribble":
            if not w.has(st["obj"]):
                return None, set()
            o = call(w.heap[st["obj"]].toJson)
            if o.ok:
                _scribble(o.value)
            return o, set()
        return self.apply_special(w, st, si)

    def apply_special(self, w, st, si):
        raise HarnessError("unknown op %r" % st["op"])


def _scribble(doc):
    """overwrite everything in a returned document (the caller owns it)"""
    if isinstance(doc, dict):
        for k in list(doc):
            if isinstance(doc[k], (dict, list)):
                _scribble(doc[k])
                if isinstance(doc[k], list):
                    doc[k].append("scribble")
                else:
                    doc[k]["scribble"] = 1
            else:
                doc[k] = "scribbled"
    elif isinstance(doc, list):
        for i in range(len(doc)):
            if isinstance(doc[i], (dict, list)):
                _scribble(doc[i])
            else:
                doc[i] = "scribbled"


# --------------------------------------------------------------------------- monitors


def snapshot_docs(w):
    out = {}
    for h in sorted(w.heap):
        o = call(observe.observe, w.heap[h])
        out[h] = o.value if o.ok else {"type": "?", "data": "exc:" + type(o.exc).__name__, "version": "?"}
    return out


def hashes(docs):
    return {h: observe.obs_hash(d) for h, d in docs.items()}


def _walk_objs(obj, depth=0, parent=None, seen=None):
    """(object, parent, depth) through the public ``children`` walk."""
    if seen is None:
        seen = []
    if any(obj is s for s in seen) or depth > 12:
        return
    seen.append(obj)
    yield obj, parent, depth
    try:
        kids = list(obj.children)
    except Exception:
        kids = []
    for c in kids:
        if c is not None:
            yield from _walk_objs(c, depth + 1, obj, seen)


def branch_shortcuts(obj):
    """A Branch mirrors its first ten members in the attributes i0 ... i9 (documented access path): they must be the
    members themselves.  -> None or (node, k)"""
    for node, _, _ in _walk_objs(obj):
        if getattr(node, "name", "") == "Branch" and "values" in node.__dict__:
            for k, v in enumerate(list(node.values)[:10]):
                if node.__dict__.get("i%d" % k, v) is not v:
                    return node, k
    return None


def shared_node(x, t):
    """shallowest sub-aggregator of x that is also reachable from t (identity) -> (node, parent in x) or None"""
    tn = [o for o, _, _ in _walk_objs(t)]
    best = None
    for o, par, d in _walk_objs(x):
        if any(o is q for q in tn):
            if best is None or d < best[2]:
                best = (o, par, d)
    return best


def check_writeset(scn, w, before, after, writes, st, si):
    """Objects outside the write set must observe the same as before the step."""
    for h in sorted(before):
        if h in writes or h not in after:
            continue
        if before[h] != after[h]:
            d = observe.doc_diff(before[h], after[h]) or ([], before[h].get("type"), "?")
            culprit, field = d[1], d[2]
            op = st["op"]
            # localise by identity when the step had a target
            for t in sorted(writes):
                if t in w.heap and h in w.heap:
                    sh = shared_node(w.heap[h], w.heap[t])
                    if sh is not None:
                        node, par, depth = sh
                        # the derived object is the younger handle
                        younger = max(h, t)
                        via = w.meta.get(younger, {}).get("via", "?")
                        holder = par if par is not None else node
                        culprit = getattr(type(holder), "__name__", "?")
                        culprit = {"HistogramMethods": "Bin"}.get(culprit, getattr(holder, "name", culprit))
                        op = via
                        break
            raise scn.violation(culprit, op, "alias:%s" % field if writes else "operand-mutated:%s" % field,
                                "step %d (%s on %s) changed object %d, which is outside its write set, at %s (%s.%s)" % (
                                    si, st["op"], sorted(writes), h, d[0], d[1], d[2]), si,
                                {"before": before[h], "after": after[h]})
