"""C01 -- merge is a commutative monoid homomorphism (scenario `reduce`).

A driver, N executors and a reducer.  Executors fill private fresh trees from
their chunk at seeded speeds, crash and are retried (possibly re-split), ship
their partial by reference with seeded latency; the reducer merges whatever has
arrived, in seeded order / grouping / operand order, and probes identity,
commutativity and associativity on the way.  Oracle: the exact reference model of
the records each partial covers, and one tree filled with everything.
"""
import numpy as np

from .. import model, observe, spec as specmod
from ..kernel import call
from ..sched import Sched
from .base import Scenario


def tol_for(records, n):
    scale = 1.0
    for r in records:
        for f in ("x", "y"):
            v = r.get(f)
            if isinstance(v, bool) or not isinstance(v, (int, float, np.integer, np.floating)):
                continue
            v = float(v)  # (integers count as well: a 64-bit identifier among the values sets the scale of the rounding)
            if v == v and abs(v) != float("inf"):
                scale = max(scale, abs(v))
    return observe.Tol(n=16 * max(1, n), scale=scale)


def model_tol(w, tol):
    """the exact comparison holds while every sum is a floating-point number; model.INEXACT says when the last
    model_doc left that regime (weights spread over more than 52 bits): sums are then compared within the rounding bound"""
    if model.INEXACT[0]:
        w.bump("probe_model_sums_rounded")
        tol.sums = True
    return tol


class C01(Scenario):
    prop = "C01"
    level = "exploration"
    profiles = ["reduce", "reduce", "reduce", "reduce-awkward"]
    budgets = {"quick": 16000, "thorough": 300000}
    wall_caps = {"quick": 110, "thorough": 1500}
    rule = ("one run = one aggregation job: seeded tree (19 primitives, dyadic regime), weighted records from the "
            "tree's critical alphabet, partition into k chunks (with empty ones), executor speeds / crash+retry, "
            "arrival order, pair choice and operand order at every reduce step. Non-trivial: >= 2 executors filled "
            "data and >= 1 merge joined two non-empty partials. Distinct: hash of (tree shape, schedule shape).")
    assumptions = ["reference model (hgsim/model.py) is the specification", "dyadic configurations only: exact "
                   "fields compared with ==, mean/variance within 1024*eps*n*(1+max|q|)^2; profile reduce-awkward (0.1, 1/3, 1e6 offsets) "
                   "checks partition invariance, identity, commutativity and associativity without the model, sums within tolerance",
                   "operands are never touched after a merge (statement-minimal)"]
    expected_faults = ["retry", "reorder", "regroup", "empty_partial"]
    expected_probes = ["disjoint_sparse_merge", "empty_side_merge", "nan_extreme_merge", "vectorised_executor"]

    def generate(self, rng, tier, profile):
        big = tier == "thorough"
        regime = "awkward" if profile.endswith("awkward") else "dyadic"
        opts = specmod.merge_opts(depth=5 if big else 4, max_nodes=40 if big else 24, regime=regime, count_transform=0.08, count_same_transform=0.06)
        sp = specmod.gen_spec(rng.fork("tree"), opts)
        crit = specmod.critical_values(sp, regime)
        d = rng.fork("data")
        n = d.randint(0, 200 if big and d.chance(0.2) else 40)
        recs = [specmod.gen_record(d, crit) for _ in range(n)]
        odd = d.chance(0.5)
        ws = [d.pick(specmod.ODD_WEIGHTS) if (odd and d.chance(0.12)) else d.pick(specmod.POS_WEIGHTS) for _ in recs]
        s = rng.fork("schedule")
        f = rng.fork("faults")
        k = s.randint(1, 12 if big else 8)
        chunks = [[] for _ in range(k)]
        for i in range(n):
            chunks[s.randrange(k)].append(i)
        steps = []
        sch = Sched(s)
        nh = [0]
        has_q = any(nd["p"] in specmod.HAS_Q for _, nd in specmod.walk(sp))

        def newh():
            nh[0] += 1
            return nh[0]

        execs = {}
        ne = [0]

        def start(chunk, delay):
            ne[0] += 1
            name = "E%d" % ne[0]
            execs[name] = {"chunk": chunk, "cur": 0, "h": None, "speed": s.pick([1, 1, 2, 3, 7, 20]),
                           "inc": s.chance(0.3), "crash": (f.randrange(len(chunk) + 1) if f.chance(0.15) else None),
                           # some executors fill their chunk in vectorised batches (fill.numpy with a weight array)
                           "vec": has_q and regime == "dyadic" and s.chance(0.2), "box": s.pick(["dict", "frame", "rec"])}
            if execs[name]["vec"] and s.chance(0.4):
                for i_ in chunk:
                    ws[i_] = s.pick(specmod.NEAR_ONE_WEIGHTS)  # weights a "they are all 1 anyway" shortcut would misjudge
            sch.after(delay, name)

        for c in chunks:
            start(c, s.randrange(5))
        pending = []  # handles at the reducer
        reducer_busy = [False]
        shipped = [0]
        total_exec = [k]
        while len(sch):
            t, seq, actor, payload = sch.pop()
            if actor.startswith("E"):
                e = execs[actor]
                if e["h"] is None:
                    e["h"] = newh()
                    steps.append({"op": "new", "out": e["h"], "actor": actor, "t": t})
                if e["crash"] is not None and e["cur"] >= e["crash"]:
                    steps.append({"op": "crash", "obj": e["h"], "actor": actor, "t": t})
                    rest = e["chunk"]
                    if len(rest) >= 2 and f.chance(0.5):
                        cut = f.randrange(1, len(rest))
                        start(rest[:cut], s.randrange(4))
                        start(rest[cut:], s.randrange(4))
                        total_exec[0] += 1
                    else:
                        start(rest, s.randrange(4))
                    continue
                if e["cur"] < len(e["chunk"]) and e["vec"]:
                    nb_ = s.pick([1, 2, 4, 8])
                    idx = e["chunk"][e["cur"]: e["cur"] + nb_]
                    e["cur"] += len(idx)
                    steps.append({"op": "fillbatch", "obj": e["h"], "recs": idx, "ws": [specmod.enc_float(ws[i_]) for i_ in idx], "box": e["box"],
                                  "actor": actor, "t": t})
                    sch.after(e["speed"], actor)
                elif e["cur"] < len(e["chunk"]):
                    i = e["chunk"][e["cur"]]
                    e["cur"] += 1
                    via = "increment" if (e["inc"] and ws[i] == 1.0) else "fill"
                    steps.append({"op": "fill", "obj": e["h"], "rec": i, "w": specmod.enc_float(ws[i]), "via": via,
                                  "actor": actor, "t": t})
                    sch.after(e["speed"], actor)
                else:
                    sch.after(s.pick([0, 1, 5, 30]), "W", e["h"])  # RefWire latency
            elif actor == "W":
                pending.append(payload)
                shipped[0] += 1
                if not reducer_busy[0] and len(pending) >= 2:
                    reducer_busy[0] = True
                    sch.after(s.pick([0, 1, 3]), "R")
            elif actor == "R":
                reducer_busy[0] = False
                if len(pending) >= 2:
                    # probes first (pure), then the real merge
                    if len(pending) >= 3 and s.chance(0.35):
                        a, b, c = s.sample(pending, 3)
                        steps.append({"op": "assoc", "a": a, "b": b, "c": c, "actor": "R", "t": t})
                    if s.chance(0.4):
                        a, b = s.sample(pending, 2)
                        steps.append({"op": "comm", "l": a, "r": b, "actor": "R", "t": t})
                    if s.chance(0.3):
                        steps.append({"op": "ident", "obj": s.pick(pending), "side": s.pick(["l", "r"]), "actor": "R", "t": t})
                    a, b = s.sample(pending, 2)
                    pending.remove(a)
                    pending.remove(b)
                    out = newh()
                    steps.append({"op": "add", "l": a, "r": b, "out": out, "how": s.pick(["add", "add", "combine"]),
                                  "actor": "R", "t": t})
                    pending.append(out)
                    if len(pending) >= 2:
                        reducer_busy[0] = True
                        sch.after(s.pick([0, 1, 3, 10]), "R")
        if s.chance(0.5) and pending:
            steps.append({"op": "ident", "obj": pending[0], "side": s.pick(["l", "r"]), "actor": "R", "t": sch.now})
        if pending:
            steps.append({"op": "final", "obj": pending[0], "actor": "D", "t": sch.now})
        return {"spec": sp, "records": [specmod.enc_record(r) for r in recs], "steps": steps, "regime": regime,
                "vectorised": any(st_["op"] == "fillbatch" for st_ in steps), "narrow_columns": s.chance(0.25)}

    # ------------------------------------------------------------------
    def _expect(self, w, doc, cover, what, step, nmerge):
        if w.case.get("regime", "dyadic") != "dyadic":
            return  # non-dyadic edges: the exact model is not consulted; partition invariance below still is
        recs = [w.records[i] for i, _ in cover]
        m = model.model_doc(w.specs[0], [(w.records[i], wt) for i, wt in cover])
        doc = self._content(w, doc)
        d = observe.doc_diff(doc, m, model_tol(w, tol_for(recs, len(cover) + nmerge)))
        if d is not None:
            raise self.violation(d[1], what, "content:%s" % d[2],
                                 "%s result differs from the reference model at %s (%s.%s)" % (what, d[0], d[1], d[2]),
                                 step, {"observed": doc, "expected": m})

    def _content(self, w, doc):
        """with vectorised executors in the run, sparse bins / categories whose whole subtree holds zero weight do not count
        (fill.numpy creates one for every value present in a batch; C03's statement allows that)"""
        if not w.case.get("vectorised"):
            return doc
        return {"type": doc["type"], "data": observe.drop_empty(doc["type"], doc["data"]), "version": doc["version"]}

    def _same(self, w, a, b, what, step, n, label):
        recs = w.records
        tol = tol_for(recs, n)
        tol.sums = w.case.get("regime", "dyadic") != "dyadic"
        a, b = self._content(w, a), self._content(w, b)
        d = observe.doc_diff(a, b, tol)
        if d is not None:
            raise self.violation(d[1], what, "%s:%s" % (label, d[2]),
                                 "%s: %s differs at %s (%s.%s)" % (what, label, d[0], d[1], d[2]), step,
                                 {"one": a, "other": b})

    def _lib(self, o, what, step, culprit="?"):
        """an operation the property says must succeed"""
        if not o.ok:
            from ..kernel import exc_site

            site = exc_site(o.exc)
            raise self.violation(site[0], what, "exception:%s" % type(o.exc).__name__,
                                 "%s raised %s" % (what, o.describe()), step)
        return o.value

    def run(self, case, w, R):
        import histogrammar as hg

        R["shape"] = specmod.shape_key(case["spec"])
        filled_execs = set()
        merges_nonempty = 0
        nmerge = 0
        for si, st in enumerate(case["steps"]):
            op = st["op"]
            if op == "new":
                h = self._lib(w.build(0), "construct", si)
                w.put(st["out"], h, cover=[])
            elif op == "fill":
                if not w.has(st["obj"]) or st["rec"] >= len(w.records):
                    continue
                h = w.heap[st["obj"]]
                wt = specmod.dec_float(st["w"])
                rec = w.records[st["rec"]]
                if st.get("via") == "increment" and wt == 1.0:
                    o = call(hg.defs.increment, h, rec)
                    if o.ok and o.value is not h:
                        raise self.violation(case["spec"]["p"], "increment", "identity-changed",
                                             "increment() did not return its container", si)
                else:
                    o = call(h.fill, rec, wt)
                self._lib(o, "fill", si)
                w.meta[st["obj"]]["cover"].append((st["rec"], wt))
                filled_execs.add(st.get("actor"))
            elif op == "fillbatch":
                if not w.has(st["obj"]) or any(i >= len(w.records) for i in st["recs"]) or not hasattr(w.heap[st["obj"]].fill, "numpy"):
                    continue
                import numpy as np

                from ..kernel import make_box

                h = w.heap[st["obj"]]
                if any(w.records[i]["s"] is None or w.records[i]["s"] != w.records[i]["s"] for i in st["recs"]):
                    # a column of strings cannot carry None / NaN: this batch is filled row by row
                    for i, x in zip(st["recs"], st["ws"]):
                        self._lib(call(h.fill, w.records[i], specmod.dec_float(x)), "fill", si)
                        w.meta[st["obj"]]["cover"].append((i, specmod.dec_float(x)))
                    continue
                wa = np.array([float(specmod.dec_float(x)) for x in st["ws"]], dtype=np.float64)
                o = call(h.fill.numpy, make_box(w.records, st["recs"], st["box"], None, bool(w.case.get("narrow_columns"))), wa)
                self._lib(o, "fillnumpy", si)
                for i, x in zip(st["recs"], st["ws"]):
                    w.meta[st["obj"]]["cover"].append((i, specmod.dec_float(x)))
                filled_execs.add(st.get("actor"))
                w.bump("probe_vectorised_executor")
            elif op == "crash":
                if w.has(st["obj"]):
                    del w.heap[st["obj"]]
                    del w.meta[st["obj"]]
                    w.bump("fault_retry")
            elif op == "add":
                if not w.has(st["l"], st["r"]):
                    continue
                a, b = w.heap[st["l"]], w.heap[st["r"]]
                if st.get("how") == "combine":
                    o = call(hg.defs.combine, a, b)
                else:
                    o = call(lambda: a + b)
                out = self._lib(o, "add", si)
                ca, cb = w.meta[st["l"]]["cover"], w.meta[st["r"]]["cover"]
                nmerge += 1
                cover = ca + cb
                w.put(st["out"], out, cover=cover)
                w.bump("fault_regroup")
                if st["l"] > st["r"]:
                    w.bump("fault_reorder")
                la = [x for x in ca if x[1] > 0]
                lb = [x for x in cb if x[1] > 0]
                if la and lb:
                    merges_nonempty += 1
                else:
                    w.bump("fault_empty_partial")
                    w.bump("probe_empty_side_merge")
                self._probes(w, a, b)
                self._expect(w, observe.observe(out), cover, "add", si, nmerge)
                from .pool import branch_shortcuts

                bad = branch_shortcuts(out)
                if bad is not None:
                    raise self.violation("Branch", "add", "stale-shortcut:i%d" % bad[1], "the sum's Branch attribute i%d is not its member %d" % (bad[1], bad[1]), si)
            elif op == "comm":
                if not w.has(st["l"], st["r"]):
                    continue
                a, b = w.heap[st["l"]], w.heap[st["r"]]
                ab = self._lib(call(lambda: a + b), "add", si)
                ba = self._lib(call(lambda: b + a), "add", si)
                n = len(w.meta[st["l"]]["cover"]) + len(w.meta[st["r"]]["cover"]) + nmerge + 1
                self._same(w, observe.observe(ab), observe.observe(ba), "add", si, n, "commutativity")
                w.bump("probe_comm")
            elif op == "assoc":
                if not w.has(st["a"], st["b"], st["c"]):
                    continue
                a, b, c = (w.heap[st[k]] for k in ("a", "b", "c"))
                l = self._lib(call(lambda: (a + b) + c), "add", si)
                r = self._lib(call(lambda: a + (b + c)), "add", si)
                n = sum(len(w.meta[st[k]]["cover"]) for k in ("a", "b", "c")) + nmerge + 2
                self._same(w, observe.observe(l), observe.observe(r), "add", si, n, "associativity")
                w.bump("probe_assoc")
            elif op == "ident":
                if not w.has(st["obj"]):
                    continue
                p = w.heap[st["obj"]]
                z = self._lib(call(p.zero), "zero", si)
                zdoc = observe.observe(z)
                self._expect(w, zdoc, [], "zero", si, 0)
                if st["side"] == "l":
                    r = self._lib(call(lambda: z + p), "add", si)
                else:
                    r = self._lib(call(lambda: p + z), "add", si)
                n = len(w.meta[st["obj"]]["cover"]) + nmerge + 1
                self._same(w, observe.observe(r), observe.observe(p), "add", si, n, "identity")
                w.bump("probe_identity")
            elif op == "final":
                if not w.has(st["obj"]):
                    continue
                cover = w.meta[st["obj"]]["cover"]
                whole = self._lib(w.build(0), "construct", si)
                for i, wt in sorted(cover):
                    self._lib(call(whole.fill, w.records[i], wt), "fill", si)
                self._same(w, observe.observe(w.heap[st["obj"]]), observe.observe(whole), "add", si,
                           len(cover) + nmerge, "partition-invariance")
            w.record_step(st)
        R["nontrivial"] = len(filled_execs) >= 2 and merges_nonempty >= 1
        R["units"] = nmerge

    def _probes(self, w, a, b):
        """rare-branch probes (reach measurement only, no verdict)"""
        import histogrammar as hg

        def walk2(x, y):
            yield x, y
            try:
                cx, cy = list(x.children), list(y.children)
            except Exception:
                return
            if len(cx) == len(cy):
                for p, q in zip(cx, cy):
                    if type(p) is type(q):
                        yield from walk2(p, q)

        for x, y in walk2(a, b):
            if isinstance(x, (hg.SparselyBin, hg.Categorize)):
                kx, ky = set(x.bins), set(y.bins)
                if kx and ky and not (kx & ky):
                    w.bump("probe_disjoint_sparse_merge")
            if isinstance(x, (hg.Minimize, hg.Maximize)):
                vx = x.min if isinstance(x, hg.Minimize) else x.max
                vy = y.min if isinstance(y, hg.Minimize) else y.max
                if (vx != vx) != (vy != vy):
                    w.bump("probe_nan_extreme_merge")


SCENARIO = C01()
