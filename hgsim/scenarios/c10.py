"""C10 -- incompatible aggregators are never merged silently (scenario `misdelivery`).

A reducer receives a partial that belongs to another job: its spec differs from
T in exactly one place (a different primitive at one node, or one structural
parameter), and it has been filled with its own data.  All single-point
structural mutations of T are enumerated per base case; both sides are in
seeded reachable states (empty, filled, merged).  Each of acc + p, p + acc,
acc += p, p += acc must raise, and the write-set monitor must see both
operands unchanged after the failed attempt (failure atomicity).
"""
import copy
import json

from .. import observe, spec as specmod
from ..kernel import call, exc_site
from .base import Scenario, shrink_records, shrink_specs, shrink_steps

FORMS = ["add_ap", "add_pa", "iadd_ap", "iadd_pa"]


def _leaf_swap(sp):
    """a different primitive for the same place, fillable from the same records"""
    p = sp["p"]
    if p == "Count":
        return {"p": "Sum", "q": {"f": "x", "kind": "lambda"}}
    if p == "Sum":
        return {"p": "Average", "q": copy.deepcopy(sp["q"])}
    if p == "Average":
        return {"p": "Deviate", "q": copy.deepcopy(sp["q"])}
    if p == "Deviate":
        return {"p": "Average", "q": copy.deepcopy(sp["q"])}
    if p == "Minimize":
        return {"p": "Maximize", "q": copy.deepcopy(sp["q"])}
    if p == "Maximize":
        return {"p": "Minimize", "q": copy.deepcopy(sp["q"])}
    if p == "Bin":
        return {"p": "SparselyBin", "binWidth": 0.5, "origin": 0.0, "q": copy.deepcopy(sp["q"]), "value": copy.deepcopy(sp.get("value")),
                "nanflow": copy.deepcopy(sp.get("nanflow"))}
    if p == "SparselyBin":
        return {"p": "Bin", "num": 2, "low": 0.0, "high": 1.0, "q": copy.deepcopy(sp["q"]), "value": copy.deepcopy(sp.get("value")),
                "underflow": None, "overflow": None, "nanflow": copy.deepcopy(sp.get("nanflow"))}
    if p == "CentrallyBin":
        return {"p": "IrregularlyBin", "edges": sorted(sp["centers"]), "q": copy.deepcopy(sp["q"]), "value": copy.deepcopy(sp.get("value")),
                "nanflow": copy.deepcopy(sp.get("nanflow"))}
    if p == "IrregularlyBin":
        return {"p": "Stack", "thresholds": list(sp["edges"]), "q": copy.deepcopy(sp["q"]), "value": copy.deepcopy(sp.get("value")),
                "nanflow": copy.deepcopy(sp.get("nanflow"))}
    if p == "Stack":
        return {"p": "IrregularlyBin", "edges": list(sp["thresholds"]), "q": copy.deepcopy(sp["q"]), "value": copy.deepcopy(sp.get("value")),
                "nanflow": copy.deepcopy(sp.get("nanflow"))}
    if p == "Select":
        return {"p": "Fraction", "q": copy.deepcopy(sp["q"]), "value": copy.deepcopy(sp.get("cut"))}
    if p == "Fraction":
        return {"p": "Select", "q": copy.deepcopy(sp["q"]), "cut": copy.deepcopy(sp.get("value"))}
    if p == "Categorize":
        return {"p": "Bag", "q": {"f": "t", "kind": "lambda"}, "range": "S"}
    if p == "Bag":
        return {"p": "Count"}
    if p == "Label":
        return {"p": "UntypedLabel", "pairs": copy.deepcopy(sp["pairs"])}
    if p == "UntypedLabel":
        return {"p": "Branch", "values": [copy.deepcopy(v) for v in sp["pairs"].values()]}
    if p == "Index":
        return {"p": "Branch", "values": copy.deepcopy(sp["values"])}
    if p == "Branch":
        return {"p": "UntypedLabel", "pairs": {"k%d" % i: copy.deepcopy(v) for i, v in enumerate(sp["values"])}}
    return {"p": "Count"}


def _node_mutants(sp, dy):
    """single-point structural mutations of one node (not recursive): [(kind, new node spec)]"""
    out = []
    p = sp["p"]
    d = 0.25 if dy else 0.1
    out.append(("prim-swap", _leaf_swap(sp)))
    if p != "Select":
        # a Select forwards unknown attributes to its cut, so it can look like the primitive it wraps
        out.append(("prim-wrap-select", {"p": "Select", "q": {"f": "b", "kind": "lambda"}, "cut": copy.deepcopy(sp)}))
    if p == "Bin":
        for k, v in (("num", sp["num"] + 1), ("low", sp["low"] - d), ("high", sp["high"] + d)):
            t = copy.deepcopy(sp)
            t[k] = v
            out.append(("bin-" + k, t))
        if sp["num"] > 1:
            t = copy.deepcopy(sp)
            t["num"] = sp["num"] - 1
            out.append(("bin-num", t))
    elif p == "SparselyBin":
        t = copy.deepcopy(sp)
        t["binWidth"] = sp["binWidth"] * 2
        out.append(("sparse-binWidth", t))
        t = copy.deepcopy(sp)
        t["origin"] = sp["origin"] + d
        out.append(("sparse-origin", t))
    elif p in ("CentrallyBin", "IrregularlyBin", "Stack"):
        key = {"CentrallyBin": "centers", "IrregularlyBin": "edges", "Stack": "thresholds"}[p]
        vals = sorted(sp[key])
        t = copy.deepcopy(sp)
        t[key] = vals[:-1] + [vals[-1] + d]
        out.append((key + "-shift", t))
        t = copy.deepcopy(sp)
        t[key] = vals + [vals[-1] + 4 * d]
        out.append((key + "-add", t))
        t = copy.deepcopy(sp)
        t[key] = vals + [vals[-1]]  # one more bin on an existing centre / threshold: same set of values, different structure
        out.append((key + "-duplicate", t))
        if len(vals) > (2 if p == "CentrallyBin" else 1):
            t = copy.deepcopy(sp)
            t[key] = vals[:-1]
            out.append((key + "-remove", t))
    elif p == "Bag":
        t = copy.deepcopy(sp)
        if sp["range"] == "N":
            t["range"] = "N2"
            t["q"] = {"f": "xy", "kind": "lambda"}
        elif sp["range"] == "N2":
            t["range"] = "N"
            t["q"] = {"f": "x", "kind": "lambda"}
        else:
            t["range"] = "N"
            t["q"] = {"f": "x", "kind": "lambda"}
        out.append(("bag-range", t))
    elif p in ("Label", "UntypedLabel"):
        keys = list(sp["pairs"])
        t = copy.deepcopy(sp)
        t["pairs"] = {("renamed" if k == keys[0] else k): v for k, v in sp["pairs"].items()}
        out.append(("label-rename", t))
        t = copy.deepcopy(sp)
        t["pairs"]["extra"] = copy.deepcopy(sp["pairs"][keys[0]])
        out.append(("label-add", t))
        if len(keys) > 1:
            t = copy.deepcopy(sp)
            del t["pairs"][keys[-1]]
            out.append(("label-remove", t))
    elif p in ("Index", "Branch"):
        t = copy.deepcopy(sp)
        t["values"].append(copy.deepcopy(sp["values"][0]))
        out.append(("coll-size+1", t))
        if len(sp["values"]) > 1:
            t = copy.deepcopy(sp)
            t["values"].pop()
            out.append(("coll-size-1", t))
    return out


TINY = 2.0 ** -40


def _tiny_mutants(sp):
    """one structural number changed by less than any tolerance a user would configure for == (1e-9): still another
    structure, the bins mean other intervals"""
    out = []
    p = sp["p"]

    def nudge(v):
        return v * (1.0 + TINY) if abs(v) >= 1.0 else v + TINY

    if p == "Bin":
        for k in ("low", "high"):
            t = copy.deepcopy(sp)
            t[k] = nudge(sp[k])
            out.append(("tiny-bin-" + k, t))
    elif p == "SparselyBin":
        for k in ("binWidth", "origin"):
            t = copy.deepcopy(sp)
            t[k] = nudge(sp[k])
            out.append(("tiny-sparse-" + k, t))
    elif p in ("CentrallyBin", "IrregularlyBin", "Stack"):
        key = {"CentrallyBin": "centers", "IrregularlyBin": "edges", "Stack": "thresholds"}[p]
        vals = sorted(sp[key])
        t = copy.deepcopy(sp)
        t[key] = vals[:-1] + [nudge(vals[-1])]
        out.append(("tiny-%s-shift" % key, t))
    return out


def structural_mutants(spec, dy=True, tiny=False):
    """[(description, mutated spec)] -- exactly one structural change somewhere in the tree"""
    out = []

    def rec(sp, path, setter):
        for kind, new in _node_mutants(sp, dy) + (_tiny_mutants(sp) if tiny else []):
            out.append(("%s@%s" % (kind, "/".join(path) or "root"), setter(new)))
        for name, c in specmod.child_slots(sp):
            def mk(name=name, sp=sp, setter=setter):
                def s2(new):
                    t = copy.deepcopy(sp)
                    if name.startswith("pairs:"):
                        t["pairs"][name[6:]] = new
                    elif name.startswith("values:"):
                        t["values"][int(name[7:])] = new
                    else:
                        t[name] = new
                    return setter(t)
                return s2
            rec(c, path + [name], mk())
        # default slots: put a non-default child there
        if sp["p"] in ("Bin", "SparselyBin", "CentrallyBin", "IrregularlyBin", "Stack", "Categorize", "Fraction", "Select"):
            slots = {"Bin": ["value", "underflow", "overflow", "nanflow"], "Select": ["cut"], "Categorize": ["value"],
                     "Fraction": ["value"]}.get(sp["p"], ["value", "nanflow"])
            for sl in slots:
                if sp.get(sl) is None:
                    t = copy.deepcopy(sp)
                    t[sl] = {"p": "Sum", "q": {"f": "y", "kind": "lambda"}}
                    out.append(("child-type@%s" % "/".join(path + [sl]), setter(t)))
                if sl == "value" and (sp.get(sl) is None or sp[sl]["p"] == "Count"):
                    # bins that are containers of Counts instead of Counts (the specialised histogram classes cover both)
                    for nm, child in (("sparse", {"p": "SparselyBin", "binWidth": 1.0, "origin": 0.0, "q": {"f": "y", "kind": "lambda"}, "value": None, "nanflow": None}),
                                      ("categorize", {"p": "Categorize", "q": {"f": "s", "kind": "lambda"}, "value": None}),
                                      ("bin", {"p": "Bin", "num": 2, "low": 0.0, "high": 2.0, "q": {"f": "y", "kind": "lambda"}, "value": None, "underflow": None,
                                               "overflow": None, "nanflow": None})):
                        t = copy.deepcopy(sp)
                        t[sl] = child
                        out.append(("child-container-%s@%s" % (nm, "/".join(path + [sl])), setter(t)))

    rec(spec, [], lambda new: new)
    return out


def visible_mismatch(t1, f1, t2, f2):
    """Is there a structural difference between two serialised fragments that the *documents* show?  (A reloaded
    operand only knows what its document says: below a sparse container without bins the document records nothing but
    bins:type, so a difference hidden there cannot be rejected by anybody.)"""
    from .. import grammar

    if t1 != t2:
        return True
    if t1 == "Count":
        return False
    if t1 == "Bag":
        return f1["range"] != f2["range"]
    if t1 in ("Sum", "Average", "Deviate", "Minimize", "Maximize"):
        return False
    if t1 == "Bin":
        if (f1["low"], f1["high"], len(f1["values"])) != (f2["low"], f2["high"], len(f2["values"])) or f1["values:type"] != f2["values:type"]:
            return True
        if visible_mismatch(f1["values:type"], f1["values"][0], f2["values:type"], f2["values"][0]):
            return True
        return any(visible_mismatch(f1[k + ":type"], f1[k], f2[k + ":type"], f2[k]) for k in ("underflow", "overflow", "nanflow"))
    if t1 in ("SparselyBin", "Categorize"):
        if t1 == "SparselyBin" and (f1["binWidth"], f1["origin"]) != (f2["binWidth"], f2["origin"]):
            return True
        if f1["bins:type"] != f2["bins:type"]:
            return True
        if t1 == "SparselyBin" and visible_mismatch(f1["nanflow:type"], f1["nanflow"], f2["nanflow:type"], f2["nanflow"]):
            return True
        # any bin of one side against any bin of the other: one bin alone may be a nested sparse container that is still empty
        return any(visible_mismatch(f1["bins:type"], a, f2["bins:type"], b) for a in f1["bins"].values() for b in f2["bins"].values())
    if t1 in ("CentrallyBin", "IrregularlyBin", "Stack"):
        key = "center" if t1 == "CentrallyBin" else "atleast"
        if [b[key] for b in f1["bins"]] != [b[key] for b in f2["bins"]] or f1["bins:type"] != f2["bins:type"]:
            return True
        if f1["bins"] and visible_mismatch(f1["bins:type"], f1["bins"][0]["data"], f2["bins:type"], f2["bins"][0]["data"]):
            return True
        return visible_mismatch(f1["nanflow:type"], f1["nanflow"], f2["nanflow:type"], f2["nanflow"])
    if t1 == "Select":
        return f1["sub:type"] != f2["sub:type"] or visible_mismatch(f1["sub:type"], f1["data"], f2["sub:type"], f2["data"])
    if t1 == "Fraction":
        return f1["sub:type"] != f2["sub:type"] or visible_mismatch(f1["sub:type"], f1["numerator"], f2["sub:type"], f2["numerator"])
    if t1 == "Label":
        if sorted(f1["data"]) != sorted(f2["data"]) or f1["sub:type"] != f2["sub:type"]:
            return True
        return any(visible_mismatch(f1["sub:type"], f1["data"][k], f2["sub:type"], f2["data"][k]) for k in f1["data"])
    if t1 == "UntypedLabel":
        if sorted(f1["data"]) != sorted(f2["data"]):
            return True
        return any(visible_mismatch(f1["data"][k]["type"], f1["data"][k]["data"], f2["data"][k]["type"], f2["data"][k]["data"]) for k in f1["data"])
    if t1 == "Index":
        if len(f1["data"]) != len(f2["data"]) or f1["sub:type"] != f2["sub:type"]:
            return True
        return any(visible_mismatch(f1["sub:type"], a, f2["sub:type"], b) for a, b in zip(f1["data"], f2["data"]))
    if t1 == "Branch":
        if len(f1["data"]) != len(f2["data"]):
            return True
        return any(visible_mismatch(a["type"], a["data"], b["type"], b["data"]) for a, b in zip(f1["data"], f2["data"]))
    return True


def _valid_spec(sp):
    for _, s in specmod.walk(sp):
        if s["p"] in ("Label", "Index"):
            kids = list(s["pairs"].values()) if s["p"] == "Label" else s["values"]
            if len(set(k["p"] for k in kids)) > 1:
                return False
            if kids[0]["p"] == "Bag" and len(set(k["range"] for k in kids)) > 1:
                return False
    return True


class C10(Scenario):
    prop = "C10"
    level = "fault_enumeration"
    profiles = ["misdelivery", "misdelivery", "misdelivery", "built", "nested-sparse"]
    budgets = {"quick": 5000, "thorough": 100000}
    wall_caps = {"quick": 110, "thorough": 1500}
    block = 16
    rule = ("one run = one base case (tree T, accumulator state in {empty, filled, merged}, own data for the foreign "
            "partial) for which every single-point structural mutation of T (different primitive at one node; Bin num / "
            "low / high; SparselyBin binWidth / origin; one centre / threshold / edge shifted, added or removed; Bag range; a "
            "label renamed / added / removed; Index / Branch size; the type of one child slot, also under empty sparse "
            "containers) is enumerated and tried in the four forms acc+p, p+acc, acc+=p, p+=acc. units_checked = "
            "(mutant, form) attempts. Non-trivial: >= 1 mutant below the root was attempted with a filled accumulator. "
            "Distinct: hash of (tree shape, number of mutants).")
    assumptions = ["any exception type counts as a rejection", "mutants whose construction fails (Label/Index type rule) are skipped and counted",
                   "operands are rebuilt from their recorded fills before every attempt, so one failed += cannot contaminate the next"]
    expected_faults = ["misdelivery"]
    expected_probes = ["nested_mismatch", "mismatch_under_empty_sparse", "acc_filled", "operand_reloaded", "tolerance_configured",
                       "tiny_mismatch", "built_layer_count", "absorbed_then_original_partner", "first_bin_uninformative"]

    def generate(self, rng, tier, profile):
        big = tier == "thorough"
        opts = specmod.merge_opts(depth=4 if big else 3, max_nodes=14 if big else 9, max_coll=2, max_num=4, big_bins=0.06)
        sp = specmod.gen_spec(rng.fork("tree"), opts)
        # one large histogram per tree: two of them nested are 90 000 bins (three: 23 million), copied by every operation
        seen_big = False
        for _, nd in specmod.walk(sp):
            if nd["p"] == "Bin" and nd.get("num", 0) >= 256:
                if seen_big:
                    bw = (nd["high"] - nd["low"]) / nd["num"]
                    nd["num"] = 3
                    nd["high"] = nd["low"] + 3 * bw
                seen_big = True
        crit = specmod.critical_values(sp)
        d = rng.fork("data")
        recs = [specmod.gen_record(d, crit, {"no_none": True}) for _ in range(d.randint(2, 10))]
        s = rng.fork("schedule")
        n = len(recs)
        state = s.pick(["empty", "filled", "filled", "merged"])
        acc_fill = [] if state == "empty" else [[s.randrange(n), s.pick(specmod.POS_WEIGHTS)] for _ in range(s.randint(1, 6))]
        acc_fill2 = [[s.randrange(n), s.pick(specmod.POS_WEIGHTS)] for _ in range(s.randint(0, 4))] if state == "merged" else None
        p_fill = [] if s.chance(0.25) else [[s.randrange(n), s.pick(specmod.POS_WEIGHTS)] for _ in range(s.randint(1, 6))]
        reload_acc, reload_p = s.chance(0.2), s.chance(0.2)
        k = rng.fork("knobs")
        tol = k.pick([0.0, 0.0, 1e-9, 1e-6])  # histogrammar.util.relativeTolerance / absoluteTolerance: a knob of ==, not of +
        tolmode = k.pick(["both", "rel", "abs"])
        if profile == "nested-sparse":
            # two levels of sparse containers; the accumulator is reloaded from JSON and the bin that comes first in it is a
            # nested sparse container that has only seen NaN (no bins: it knows nothing about what lies below)
            leaf = specmod.gen_spec(rng.fork("leaf"), specmod.merge_opts(depth=2, max_nodes=3, max_num=3, prims=["Bin", "Bag", "Stack", "IrregularlyBin", "CentrallyBin"]))
            inner = {"p": "SparselyBin", "binWidth": 1.0, "origin": 0.0, "q": {"f": "x", "kind": "lambda"}, "value": leaf, "nanflow": None}
            outer = {"p": "Categorize", "q": {"f": "s", "kind": "lambda"}, "value": inner} if k.chance(0.5) else \
                {"p": "SparselyBin", "binWidth": 1.0, "origin": 0.0, "q": {"f": "y", "kind": "lambda"}, "value": inner, "nanflow": None}
            base = {"b": True, "c": 1.0, "t": "a"}
            recs2 = [dict(base, s="a", y=0.5, x=float("nan")), dict(base, s="b", y=1.5, x=0.5), dict(base, s="c", y=2.5, x=0.5), dict(base, s="c", y=2.5, x=3.5)]
            muts = [(dsc, m) for dsc, m in structural_mutants(outer) if _valid_spec(m) and dsc.split("@")[1].startswith("value/value")]
            steps = [{"op": "misdeliver", "what": dsc, "mutant": m, "form": f} for dsc, m in muts for f in FORMS]
            flavour = k.pick(["first-bin-empty", "first-bin-empty", "live-after-good-merge", "learned-by-iadd", "template-learned-by-iadd"])
            base_case = {"spec": outer, "records": [specmod.enc_record(r) for r in recs2 + [dict(base, s="a", y=0.5, x=0.5), dict(base, s="b", y=1.5, x=float("nan"))]],
                         "steps": steps,
                         "p_fill": [[2, 1.0], [3, 2.0]], "tol": 0.0, "tolmode": "both", "vary_label_order": False, "flavour": flavour}
            if flavour == "live-after-good-merge":
                # both operands live; the accumulator is the sum of two compatible partials (an earlier, successful merge of
                # templates that look exactly like the foreign ones down to the level where they differ)
                base_case.update(acc_fill=[[0, 1.0], [1, 1.0]], acc_fill2=[[1, 1.0]], reload_acc=False, reload_p=False)
            elif flavour == "learned-by-iadd":
                # the reloaded accumulator knows nothing below its only, NaN-only bin until a compatible partial of the same
                # category is merged into it in place; what it learnt then must count when the foreign partial arrives
                base_case.update(acc_fill=[[0, 1.0]], acc_fill2=None, reload_acc=True, reload_p=k.chance(0.3), pre_iadd=[[4, 1.0]])
            elif flavour == "template-learned-by-iadd":
                # as before, but the compatible live partial has only seen NaN in *another* bin: the accumulator now holds an
                # uninformed reloaded bin followed by a live one that has no bins either but carries the value template
                base_case.update(acc_fill=[[0, 1.0]], acc_fill2=None, reload_acc=True, reload_p=k.chance(0.3), pre_iadd=[[5, 1.0]], live_knowledge=True)
            else:
                base_case.update(acc_fill=[[0, 1.0], [1, 1.0]], acc_fill2=None, reload_acc=True, reload_p=k.chance(0.3))
            return base_case
        if profile == "built":
            steps = []
            for _ in range(8):
                na = k.randint(1, 3)
                nb = k.pick([x for x in (1, 2, 3, 4) if x != na])
                steps.append({"op": "built", "na": na, "nb": nb, "form": k.pick(FORMS), "wrap": k.pick(["none", "none", "branch", "label"]),
                              "reload": k.pick(["none", "none", "acc", "p", "both"]),
                              "layers": [[[s.randrange(n), s.pick(specmod.POS_WEIGHTS)] for _ in range(s.randint(0, 4))] for _ in range(4)]})
            return {"spec": sp, "records": [specmod.enc_record(r) for r in recs], "acc_fill": acc_fill, "acc_fill2": None, "p_fill": p_fill,
                    "steps": steps, "reload_acc": False, "reload_p": False, "tol": tol, "tolmode": tolmode}
        muts = [(dsc, m) for dsc, m in structural_mutants(sp, tiny=True) if _valid_spec(m)]
        steps = [{"op": "misdeliver", "what": dsc, "mutant": m, "form": f} for dsc, m in muts for f in FORMS]
        if seen_big and len(steps) > 40:
            # a tree around a 256-bin histogram costs about a second per misdelivery (every operand is built, filled, copied and
            # serialised several times): a seeded sample of the misdeliveries keeps the run inside the watchdog
            steps = [steps[i] for i in sorted(k.sample(list(range(len(steps))), 40))]
        return {"spec": sp, "records": [specmod.enc_record(r) for r in recs], "acc_fill": acc_fill, "acc_fill2": acc_fill2,
                "p_fill": p_fill, "steps": steps, "reload_acc": reload_acc, "reload_p": reload_p, "tol": tol, "tolmode": tolmode}

    def _make(self, w, sp, fills, fills2, si):
        def one(fl):
            o = call(specmod.build, sp)
            if not o.ok:
                return None
            h = o.value
            for i, wt in fl:
                if i < len(w.records):
                    f = call(h.fill, w.records[i], wt)
                    if not f.ok:
                        return None
            return h

        h = one(fills)
        if h is not None and fills2 is not None:
            h2 = one(fills2)
            if h2 is None:
                return None
            o = call(lambda: h + h2)
            if not o.ok:
                return None
            h = o.value
        return h

    def run(self, case, w, R):
        import histogrammar.util as util

        old = (util.relativeTolerance, util.absoluteTolerance)
        tol = float(case.get("tol") or 0.0)
        if tol > 0.0:
            mode = case.get("tolmode", "both")
            util.relativeTolerance = tol if mode in ("both", "rel") else 0.0
            util.absoluteTolerance = tol if mode in ("both", "abs") else 0.0
            w.bump("probe_tolerance_configured")
        try:
            return self._run(case, w, R)
        finally:
            util.relativeTolerance, util.absoluteTolerance = old

    def _built(self, case, w, st, si):
        """Stack.build of a different number of layers of the same tree is a different structure"""
        import histogrammar as hg

        sp = case["spec"]

        def mk(n, reload):
            layers = [self._make(w, sp, fl, None, si) for fl in st["layers"][:n]]
            if any(x is None for x in layers):
                return None
            o = call(lambda: hg.Stack.build(*layers))
            if not o.ok:
                return None
            h = o.value
            if st.get("wrap") == "branch":
                o = call(lambda: hg.Branch(h, hg.Count()))
            elif st.get("wrap") == "label":
                o = call(lambda: hg.UntypedLabel(stack=h, n=hg.Count()))
            if not o.ok:
                return None
            h = o.value
            if reload:
                o = call(lambda: hg.Factory.fromJson(json.loads(json.dumps(h.toJson()))))
                if not o.ok:
                    return None
                h = o.value
            return h

        acc = mk(st["na"], st.get("reload") in ("acc", "both"))
        p = mk(st["nb"], st.get("reload") in ("p", "both"))
        return acc, p

    def _run(self, case, w, R):
        sp = case["spec"]
        R["shape"] = "%s|%d" % (specmod.shape_key(sp), len(case["steps"]))
        units = 0
        nontrivial = False
        for si, st in enumerate(case["steps"]):
            if st.get("op") == "built":
                if st["na"] == st["nb"]:
                    continue
                acc, p = self._built(case, w, st, si)
                if acc is None or p is None:
                    w.bump("probe_mutant_not_constructible")
                    continue
                units += 1
                nontrivial = True
                w.bump("fault_misdelivery")
                w.bump("probe_built_layer_count")
                da, dp = observe.observe(acc), observe.observe(p)
                self._attempt(w, R, si, st["form"], acc, p, da, dp, "Stack", "built-layer-count", "built-layer-count@%s" % st.get("wrap"),
                              "Stack", "Stack")
                continue
            m = st["mutant"]
            if m == sp or not _valid_spec(m):
                continue
            acc = self._make(w, sp, case["acc_fill"], case.get("acc_fill2"), si)
            p = self._make(w, m, case["p_fill"], None, si)
            if acc is None or p is None:
                w.bump("probe_mutant_not_constructible")
                continue
            # either side may be the immutable form that arrives over a JSON wire
            import histogrammar as hg

            if case.get("reload_acc"):
                r = call(lambda: hg.Factory.fromJson(acc.toJson()))
                if r.ok:
                    acc = r.value
                    w.bump("probe_operand_reloaded")
            if case.get("pre_iadd"):
                more = self._make(w, sp, case["pre_iadd"], None, si)

                def learn():
                    x = acc
                    x += more
                    return x

                if more is None or not call(learn).ok:
                    continue
                w.bump("probe_accumulator_learnt_by_iadd")
            if case.get("reload_p"):
                r = call(lambda: hg.Factory.fromJson(p.toJson()))
                if r.ok:
                    p = r.value
                    w.bump("probe_operand_reloaded")
            # the mutant must really be a different structure
            zacc, zp = call(lambda: observe.observe(acc.zero())), call(lambda: observe.observe(p.zero()))
            da, dp = observe.observe(acc), observe.observe(p)
            form = st["form"]
            if case.get("live_knowledge"):
                # the accumulator absorbed a live partial: the value templates that came with it are part of what it knows,
                # although its document does not show them
                w.bump("probe_knowledge_in_live_template_only")
            elif (case.get("reload_acc") or case.get("reload_p")) and not visible_mismatch(da["type"], da["data"], dp["type"], dp["data"]):
                # the difference lies below a sparse container that is still empty: the documents do not record it, so
                # nothing can be demanded of operands that were reloaded from them
                w.bump("probe_mismatch_invisible_after_reload")
                continue
            if form == "add_ap" and case["p_fill"] and case["acc_fill"] and self._under_empty_sparse(sp, st["what"], da):
                self._absorb_then_reject(case, w, R, si, st, sp, m)
            units += 1
            w.bump("fault_misdelivery")
            if case.get("profile") == "nested-sparse":
                w.bump("probe_first_bin_uninformative")
            if "/" in st["what"]:
                w.bump("probe_nested_mismatch")
                if case["acc_fill"]:
                    nontrivial = True
            if case["acc_fill"]:
                w.bump("probe_acc_filled")
            if self._under_empty_sparse(sp, st["what"], da):
                w.bump("probe_mismatch_under_empty_sparse")
            if st["what"].startswith("tiny-"):
                w.bump("probe_tiny_mismatch")
            self._attempt(w, R, si, form, acc, p, da, dp, self._site(sp, st["what"]), st["what"].split("@")[0], st["what"], sp["p"], m["p"])
        R["nontrivial"] = nontrivial
        R["units"] = units

    def _absorb_then_reject(self, case, w, R, si, st, sp, m):
        """An accumulator that came back from JSON while it was still empty only knows the *names* of its content types:
        it may legitimately absorb the foreign partial (the difference is invisible then).  From that moment on its bins
        say what it holds, and a partner of the original specification is the one that has to be rejected."""
        import histogrammar as hg

        def make():
            # all live partials of the job descend from one prototype through zero(), so they share its value templates
            proto = self._make(w, sp, case["acc_fill"], None, si)
            pl = self._make(w, m, case["p_fill"], None, si)
            if proto is None or pl is None:
                return None
            x = hg.Factory.fromJson(json.loads(json.dumps(proto.zero().toJson())))
            x += proto.zero()                              # an empty live partial of the original specification
            x += hg.Factory.fromJson(json.loads(json.dumps(pl.toJson())))  # the foreign partial, reloaded
            return x, proto

        for f2 in FORMS:
            o = call(make)
            if o.ok and o.value is not None:
                o.value, partner = o.value
            else:
                partner = None
            if not o.ok or o.value is None or partner is None:
                w.bump("probe_absorb_not_possible")
                return
            x = o.value
            dx, dq = observe.observe(x), observe.observe(partner)
            if not visible_mismatch(dx["type"], dx["data"], dq["type"], dq["data"]):
                return
            w.bump("probe_absorbed_then_original_partner")
            self._attempt(w, R, si, f2, x, partner, dx, dq, self._site(sp, st["what"]), "absorbed:" + st["what"].split("@")[0], st["what"], sp["p"], sp["p"])

    def _attempt(self, w, R, si, form, acc, p, da, dp, site, kind, what, root_a, root_p):
        if True:
            def attempt():
                if form == "add_ap":
                    return acc + p
                if form == "add_pa":
                    return p + acc
                if form == "iadd_ap":
                    x = acc
                    x += p
                    return x
                x = p
                x += acc
                return x

            o = call(attempt)
            opname = "add" if form.startswith("add") else "iadd"
            if o.ok:
                self.soft(self.violation(site, opname, "no-exception:%s" % kind,
                                         "%s of structurally different trees (%s) returned a result instead of raising" % (form, what), si,
                                         {"acc": da, "p": dp}), R)
                return
            a2, p2 = observe.observe(acc), observe.observe(p)
            for name, before, after, root in (("acc", da, a2, root_a), ("p", dp, p2, root_p)):
                if before != after:
                    d = observe.diff_shallow(before["type"], before["data"], after["data"]) or ([], root, "?")
                    self.soft(self.violation(d[1], opname, "operand-mutated:%s" % d[2],
                                             "%s raised (%s) but left operand %s changed at %s (%s.%s)" % (
                                                 form, type(o.exc).__name__, name, d[0], d[1], d[2]), si,
                                             {"before": before, "after": after, "mutation": what}), R)
                    break
            w.record_step({"op": "misdeliver", "what": what, "form": form}, {0: observe.obs_hash(a2), 1: observe.obs_hash(p2)})

    def _site(self, sp, what):
        """primitive that owns the mutated parameter (the node whose check should have fired)"""
        path = what.split("@", 1)[1]
        node = sp
        if path != "root":
            parts = path.split("/")
            if what.startswith("child-type") or what.startswith("prim-swap") or what.startswith("prim-wrap"):
                parts = parts[:-1]  # the check that should have fired is the parent's
            for name in parts:
                try:
                    if name.startswith("pairs:"):
                        node = node["pairs"][name[6:]]
                    elif name.startswith("values:"):
                        node = node["values"][int(name[7:])]
                    else:
                        node = node[name]
                except (KeyError, IndexError, TypeError):
                    break
                if node is None:
                    return "Count"
        return node["p"]

    def _under_empty_sparse(self, sp, what, doc):
        path = what.split("@", 1)[1]
        if path == "root":
            return False
        node = sp
        for name in path.split("/"):
            if node is None or not isinstance(node, dict):
                return False
            if node.get("p") in ("SparselyBin", "Categorize") and name == "value":
                return True
            if name.startswith("pairs:"):
                node = node["pairs"].get(name[6:])
            elif name.startswith("values:"):
                i = int(name[7:])
                node = node["values"][i] if i < len(node["values"]) else None
            else:
                node = node.get(name)
        return False

    def shrink(self, case):
        yield from shrink_steps(case)
        for key in ("acc_fill", "p_fill", "acc_fill2"):
            if case.get(key):
                c = copy.deepcopy(case)
                c[key] = c[key][:-1]
                yield c
        if case.get("acc_fill2") is not None:
            c = copy.deepcopy(case)
            c["acc_fill2"] = None
            yield c
        yield from shrink_records(case)


SCENARIO = C10()
