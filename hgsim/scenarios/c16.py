"""C16 -- one aggregator at two positions of a tree is detected, not double-filled
(scenario `shared-node`).

The tree builder installs one aggregator object at two fillable positions --
siblings in each collection type, cousins under different parents (two Selects
holding the same cut), a node and its own descendant -- through the public
constructors only.  The shared object may have a history of its own: filled
alone, or used (and filled) inside another, valid tree first.  The run then
attempts row fills and vector fills repeatedly: each must raise
ContainerException and change nothing.  Control runs build the same shapes from
separate objects, and trees whose sparse containers / Bins share one *unfilled
template* object: every fill must succeed.
"""
import copy
import json

from .. import observe, spec as specmod
from ..kernel import call, exc_site, make_box
from .base import Scenario, shrink_records, shrink_steps
from .pool import snapshot_docs

Q = {"f": "x", "kind": "lambda"}
QC = {"f": "b", "kind": "lambda"}


def ref(n):
    return {"p": "ref", "name": n}


def coll(kind, kids):
    if kind in ("Label", "UntypedLabel"):
        return {"p": kind, "pairs": {"k%d" % i: k for i, k in enumerate(kids)}}
    return {"p": kind, "values": kids}


class C16(Scenario):
    prop = "C16"
    level = "exploration"
    profiles = ["shared", "shared", "control"]
    budgets = {"quick": 20000, "thorough": 400000}
    wall_caps = {"quick": 110, "thorough": 1500}
    rule = ("one run = one tree in which one aggregator object S (a seeded sub-tree) occupies two fillable positions: "
            "siblings in Label / UntypedLabel / Index / Branch, cousins under two Selects or two collections, S beside a "
            "node that contains S, or a child of S beside S; S may first be filled alone or inside another valid tree; "
            "then 1-4 row / numpy fill attempts. Profile `control` builds the same shapes from separate objects and trees "
            "whose SparselyBin / Categorize / Bin nodes were given one unfilled template object. Non-trivial: the shared "
            "object has >= 2 nodes or a history, and >= 2 fill attempts. Distinct: hash of (pattern, S shape, history, "
            "attempt kinds).")
    assumptions = ["the object is installed through the public constructors, or by assigning it to the public child attributes "
                   "(underflow / overflow / nanflow / cut / numerator / denominator) of already constructed containers",
                   "positions whose constructor copies its argument (Bin flows and values, Fraction value, sparse value "
                   "templates) do not share an object afterwards and are control cases"]
    expected_faults = ["shared_node"]
    expected_probes = ["shared_prefilled", "shared_used_in_other_tree", "shared_numpy_attempt", "control_shared_template", "parent_prefilled", "explicit_bins_position", "assigned_slot", "reloaded_root", "fill_inside_another_fill", "fill_through_dataframe_method"]

    # ------------------------------------------------------------------ generation
    def generate(self, rng, tier, profile):
        big = tier == "thorough"
        t = rng.fork("tree")
        sopts = specmod.merge_opts(depth=3 if big else 2, max_nodes=8 if big else 5, max_coll=2, max_num=3,
                                   qkinds=[("lambda", 1)], bag_ranges=["N"])
        S = specmod.gen_spec(t, sopts)
        shared = profile == "shared"
        a = ref("S") if shared else S
        b = ref("S") if shared else copy.deepcopy(S)
        pat = t.pick(["siblings", "siblings", "cousins-select", "cousins-coll", "uncle", "own-child", "deep", "explicit-bins", "explicit-bins",
                      "prefilled-parents", "prefilled-parents", "assigned-slot", "assigned-slot", "reloaded-root", "reloaded-root"])
        kind = t.pick(["Label", "UntypedLabel", "Index", "Branch"])
        other = {"p": "Count"}
        defs = {"S": S}
        if pat == "siblings":
            kids = [a, b]
            if kind in ("UntypedLabel", "Branch") and t.chance(0.5):
                kids.insert(t.randrange(3), other)
            tree = coll(kind, kids)
        elif pat == "cousins-select":
            tree = coll(t.pick(["Branch", "UntypedLabel", "Index", "Label"]), [{"p": "Select", "q": QC, "cut": a}, {"p": "Select", "q": QC, "cut": b}])
        elif pat == "cousins-coll":
            tree = {"p": "Branch", "values": [coll(kind, [a]), coll(t.pick(["Label", "UntypedLabel", "Index", "Branch"]), [b])]}
        elif pat == "uncle":
            tree = {"p": "Branch", "values": [a, {"p": "Select", "q": QC, "cut": {"p": "Branch", "values": [other, b]}}]}
        elif pat == "own-child":
            # C is a child of the container P; P and C are both installed in the root
            defs = {"S": S, "P": {"p": "Branch", "values": [ref("S") if shared else S, other]}}
            tree = {"p": "UntypedLabel", "pairs": {"p": ref("P") if shared else defs["P"], "c": b}}
        elif pat == "explicit-bins":
            # IrregularlyBin / Stack built from explicit (edge, aggregator) pairs keep the caller's objects
            kindb = t.pick(["IrregularlyBin", "Stack"])
            slots = t.sample([0, 1, 2], 2)
            pairs = [["-inf", other], [0.0, {"p": "Count"}], [1.5, {"p": "Count"}]]
            where = t.pick(["both-inside", "inside-and-beside"])
            if where == "both-inside":
                pairs[slots[0]][1] = a
                pairs[slots[1]][1] = b
                tree = {"p": kindb, "explicit": pairs, "q": Q}
            else:
                pairs[slots[0]][1] = a
                tree = {"p": "Branch", "values": [{"p": kindb, "explicit": pairs, "q": Q}, b] if t.chance(0.5) else [b, {"p": kindb, "explicit": pairs, "q": Q}]}
        elif pat == "assigned-slot":
            # the object is put into public child attributes (flows, cut, numerator ...) of already constructed containers:
            # constructors copy these arguments, plain attribute assignment does not
            inner = t.pick([None, {"p": "Bin", "num": 2, "low": 0.0, "high": 2.0, "q": Q, "value": None, "underflow": None, "overflow": None, "nanflow": None},
                            {"p": "SparselyBin", "binWidth": 1.0, "origin": 0.0, "q": Q, "value": None, "nanflow": None}])

            def holder():
                k2 = t.pick(["Bin", "SparselyBin", "CentrallyBin", "IrregularlyBin", "Stack", "Stack", "Select", "Fraction"])
                if k2 == "Bin":
                    return {"p": "Bin", "num": 2, "low": 0.0, "high": 2.0, "q": Q, "value": inner, "underflow": None, "overflow": None, "nanflow": None}, \
                        t.pick(["underflow", "overflow", "nanflow"])
                if k2 == "SparselyBin":
                    return {"p": "SparselyBin", "binWidth": 1.0, "origin": 0.0, "q": Q, "value": inner, "nanflow": None}, "nanflow"
                if k2 == "CentrallyBin":
                    return {"p": "CentrallyBin", "centers": [0.0, 1.0], "q": Q, "value": inner, "nanflow": None}, "nanflow"
                if k2 == "IrregularlyBin":
                    return {"p": "IrregularlyBin", "edges": [0.5], "q": Q, "value": inner, "nanflow": None}, "nanflow"
                if k2 == "Stack":
                    return {"p": "Stack", "thresholds": [0.5], "q": Q, "value": inner, "nanflow": None}, "nanflow"
                if k2 == "Select":
                    return {"p": "Select", "q": QC, "cut": None}, "cut"
                return {"p": "Fraction", "q": QC, "value": None}, t.pick(["numerator", "denominator"])

            (h1, a1), (h2, a2) = holder(), holder()
            if t.chance(0.5):
                tree = {"p": "Branch", "values": [h1, h2]}
                assign = [[0, a1], [1, a2]]
            else:
                tree = {"p": "Branch", "values": [h1, b]}
                assign = [[0, a1]] if shared else []
            if not shared:
                assign = []
        elif pat == "reloaded-root":
            # the root is a directory that came back from a checkpoint (JSON reload / toImmutable); live aggregators are
            # attached to it afterwards, before its first fill
            sub = lambda: coll(t.pick(["UntypedLabel", "Branch"]), [other, {"p": "Count"}])  # noqa: E731
            tree = coll(t.pick(["UntypedLabel", "Branch"]), [other, sub(), sub()])
            defs = {"S": S, "S2": copy.deepcopy(S)}
            reloaded = {"how": t.pick(["fromJson", "jsonstr", "immutable", "file"]), "where": t.pick(["siblings", "cousins", "uncle"]),
                        "rootfills": [t.randrange(4) for _ in range(t.randint(0, 3))]}
        elif pat == "prefilled-parents":
            # two containers that each hold S once are valid on their own and get filled on their own first
            def parent(x):
                k2 = t.pick(["select", "branch", "label", "index"])
                if k2 == "select":
                    return {"p": "Select", "q": QC, "cut": x}
                if k2 == "branch":
                    return {"p": "Branch", "values": [other, x]}
                if k2 == "label":
                    return {"p": "Label", "pairs": {"a": x}}
                return {"p": "Index", "values": [x]}
            defs = {"S": S, "P1": parent(ref("S") if shared else S), "P2": parent(ref("S") if shared else copy.deepcopy(S))}
            tree = coll(t.pick(["Branch", "UntypedLabel"]), [ref("P1"), ref("P2")])
        else:
            tree = {"p": "Select", "q": QC, "cut": {"p": "Index", "values": [{"p": "Select", "q": QC, "cut": a}, {"p": "Select", "q": QC, "cut": b}]}}
        if not shared and t.chance(0.5) and pat not in ("prefilled-parents",):
            # shared *templates*: one unfilled object handed to constructors that copy it
            defs = {"S": S}
            mk = t.pick(["sparse", "cat", "bin", "flows"])
            if mk == "sparse":
                kids = [{"p": "SparselyBin", "binWidth": 1.0, "origin": 0.0, "q": Q, "value": ref("S"), "nanflow": None} for _ in range(2)]
            elif mk == "cat":
                kids = [{"p": "Categorize", "q": {"f": "s", "kind": "lambda"}, "value": ref("S")} for _ in range(2)]
            elif mk == "bin":
                kids = [{"p": "Bin", "num": 2, "low": 0.0, "high": 2.0, "q": Q, "value": ref("S"), "underflow": None, "overflow": None, "nanflow": None}
                        for _ in range(2)]
            else:
                kids = [{"p": "Bin", "num": 2, "low": 0.0, "high": 2.0, "q": Q, "value": None, "underflow": ref("S"), "overflow": ref("S"), "nanflow": ref("S")}]
            tree = coll(t.pick(["Branch", "Index", "Label", "UntypedLabel"]), kids)
            pat = "template-" + mk
        crit = specmod.critical_values(S)
        d = rng.fork("data")
        recs = [specmod.gen_record(d, crit, {"no_none": True}) for _ in range(d.randint(2, 8))]
        s = rng.fork("schedule")
        hist = s.pick(["none", "none", "prefill", "othertree", "both"]) if not pat.startswith("template") else "none"
        steps = []
        if hist in ("prefill", "both"):
            for _ in range(s.randint(1, 3)):
                steps.append({"op": "prefill", "rec": s.randrange(len(recs)), "w": s.pick(specmod.POS_WEIGHTS)})
        if hist in ("othertree", "both"):
            steps.append({"op": "othertree", "kind": s.pick(["Branch", "UntypedLabel"]), "fills": [s.randrange(len(recs)) for _ in range(s.randint(1, 3))]})
        if pat == "prefilled-parents":
            for nm in ("P1", "P2"):
                if s.chance(0.85):
                    for _ in range(s.randint(1, 2)):
                        steps.append({"op": "prefill", "who": nm, "rec": s.randrange(len(recs)), "w": s.pick(specmod.POS_WEIGHTS)})
        steps.append({"op": "buildtree"})
        for _ in range(s.randint(1, 4)):
            if s.chance(0.12):
                # the fill is issued while another, unrelated aggregator is in the middle of its own fill (from inside its
                # quantity function): a re-entrant interleaving of two fills in one thread
                steps.append({"op": "fill_nested", "rec": s.randrange(len(recs)), "w": s.pick(specmod.POS_WEIGHTS)})
            elif s.chance(0.65):
                steps.append({"op": "fill", "rec": s.randrange(len(recs)), "w": s.pick(specmod.POS_WEIGHTS)})
            else:
                steps.append({"op": "fillnumpy", "rows": [s.randrange(len(recs)) for _ in range(s.randint(1, 4))], "box": s.pick(["dict", "frame", "rec", "frame"]),
                              "weights": s.pick(["one", 0.5, "one"]), "via_frame": s.chance(0.6)})
        return {"defs": defs, "tree": tree, "shared": shared, "pattern": pat, "records": [specmod.enc_record(r) for r in recs], "steps": steps,
                "assign": assign if pat == "assigned-slot" else [], "reloaded": reloaded if pat == "reloaded-root" else None}

    # ------------------------------------------------------------------ execution
    def run(self, case, w, R):
        from histogrammar.defs import ContainerException

        shared = case["shared"]
        objs = {}
        ctr = [0]
        for name in ("S", "S2", "P", "P1", "P2"):
            if name in case["defs"]:
                o = call(specmod.build, case["defs"][name], ctr, objs)
                if not o.ok:
                    raise self.violation(exc_site(o.exc)[0], "construct", "exception:%s" % type(o.exc).__name__, o.describe(), 0)
                objs[name] = o.value
        S = objs["S"]
        w.put(1, S)
        tree = None
        attempts = 0
        hist = 0
        kinds = []
        for si, st in enumerate(case["steps"]):
            op = st["op"]
            if op == "prefill":
                if tree is not None or st["rec"] >= len(w.records):
                    continue
                target = objs.get(st.get("who", "S"))
                if target is None:
                    continue
                o = call(target.fill, w.records[st["rec"]], st["w"])
                if not o.ok:
                    raise self.violation(exc_site(o.exc)[0], "fill", "rejected-control:%s" % type(o.exc).__name__,
                                         "filling a valid sub-tree on its own raised %s" % o.describe(), si)
                hist += 1
                w.bump("probe_shared_prefilled" if st.get("who", "S") == "S" else "probe_parent_prefilled")
            elif op == "othertree":
                if tree is not None:
                    continue
                import histogrammar as hg

                good = call(lambda: hg.Branch(S, hg.Count()) if st["kind"] == "Branch" else hg.UntypedLabel(a=S, b=hg.Count()))
                if not good.ok:
                    continue
                for i in st["fills"]:
                    if i < len(w.records):
                        o = call(good.value.fill, w.records[i], 1.0)
                        if not o.ok:
                            raise self.violation(exc_site(o.exc)[0], "fill", "rejected-control:%s" % type(o.exc).__name__,
                                                 "a valid tree that holds the node once was rejected: %s" % o.describe(), si)
                hist += 1
                w.bump("probe_shared_used_in_other_tree")
            elif op == "buildtree":
                o = call(specmod.build, case["tree"], ctr, objs)
                if not o.ok:
                    if shared:
                        return  # e.g. Label type rule: nothing to test
                    raise self.violation(exc_site(o.exc)[0], "construct", "exception:%s" % type(o.exc).__name__, o.describe(), si)
                tree = o.value
                for idx, attr in case.get("assign", []):
                    setattr(tree.values[idx], attr, S)
                    w.bump("probe_assigned_slot")
                rl = case.get("reloaded")
                if rl:
                    tree = self._reload_and_attach(w, tree, rl, S, S if shared else objs.get("S2"), si)
                    if tree is None:
                        return
                    w.bump("probe_reloaded_root")
                w.put(2, tree)
            elif op in ("fill", "fillnumpy", "fill_nested"):
                if tree is None:
                    continue
                before = snapshot_docs(w)
                if op == "fill_nested":
                    if st["rec"] >= len(w.records):
                        continue
                    import histogrammar as hg

                    def reentrant(d, t=tree, wt=st["w"]):
                        t.fill(d, wt)
                        return 1.0

                    outer = hg.Sum(reentrant)
                    o = call(outer.fill, w.records[st["rec"]], 1.0)
                    w.bump("probe_fill_inside_another_fill")
                    op = "fill"
                elif op == "fill":
                    if st["rec"] >= len(w.records):
                        continue
                    o = call(tree.fill, w.records[st["rec"]], st["w"])
                else:
                    if any(r >= len(w.records) for r in st["rows"]) or not hasattr(tree.fill, "numpy"):
                        continue
                    if not any(sp["p"] in specmod.HAS_Q for nm in case["defs"] for _, sp in specmod.walk(case["defs"][nm])) and \
                            not any(sp["p"] in specmod.HAS_Q for _, sp in specmod.walk(case["tree"])):
                        continue
                    b = make_box(w.records, st["rows"], st["box"])
                    if st["box"] == "frame" and st["weights"] == "one" and st.get("via_frame"):
                        # the DataFrame's own entry point (df.histogrammar(tree), what df.hg_Bin(...) etc. go through)
                        o = call(b.histogrammar, tree)
                        w.bump("probe_fill_through_dataframe_method")
                    else:
                        o = call(tree.fill.numpy, b) if st["weights"] == "one" else call(tree.fill.numpy, b, float(st["weights"]))
                    if shared:
                        w.bump("probe_shared_numpy_attempt")
                attempts += 1
                kinds.append(op)
                after = snapshot_docs(w)
                prim = case["tree"]["p"]
                if "explicit" in repr(case["tree"]):
                    w.bump("probe_explicit_bins_position")
                if shared:
                    w.bump("fault_shared_node")
                    if o.ok:
                        raise self.violation(prim, op, "not-rejected",
                                             "%s on a tree that holds one aggregator object at two positions (%s) returned normally" % (op, case["pattern"]),
                                             si, {"before": before[2], "after": after[2]})
                    if not isinstance(o.exc, ContainerException):
                        raise self.violation(prim, op, "exception:%s" % type(o.exc).__name__,
                                             "%s on a tree with a shared node raised %s instead of ContainerException" % (op, o.describe()), si)
                    if before != after:
                        d = observe.doc_diff(before[2], after[2]) or observe.doc_diff(before[1], after[1]) or ([], prim, "?")
                        raise self.violation(d[1], op, "state-changed:%s" % d[2],
                                             "%s raised ContainerException but the tree changed at %s (%s.%s)" % (op, d[0], d[1], d[2]), si,
                                             {"before": before[2], "after": after[2]})
                else:
                    if case["pattern"].startswith("template"):
                        w.bump("probe_control_shared_template")
                    if not o.ok:
                        raise self.violation(exc_site(o.exc)[0], op, "rejected-control:%s" % type(o.exc).__name__,
                                             "%s on a tree without shared nodes (%s) raised %s" % (op, case["pattern"], o.describe()), si)
            w.record_step(st)
        nS = specmod.count_nodes(case["defs"]["S"])
        R["shape"] = "%s|%s|%s|%d|%s" % (case["pattern"], specmod.shape_key(case["defs"]["S"]), case["tree"]["p"], hist, ",".join(kinds))
        R["nontrivial"] = (nS >= 2 or hist >= 1) and attempts >= 2
        R["units"] = attempts

    def _reload_and_attach(self, w, tree, rl, a, b, si):
        import histogrammar as hg
        from histogrammar.defs import Factory

        for i in rl["rootfills"]:
            if i < len(w.records):
                call(tree.fill, w.records[i], 1.0)
        how = rl["how"]
        if how == "immutable":
            o = call(tree.toImmutable)
        else:
            o = w.ship(tree, {"fromJson": "json", "jsonstr": "jsonstr", "file": "file"}[how], "c16-root.json")
        if not o.ok:
            raise self.violation(exc_site(o.exc)[0], "reload", "exception:%s" % type(o.exc).__name__,
                                 "reloading a directory of counters raised %s" % o.describe(), si)
        root = o.value

        def attach(node, key, obj):
            if "pairs" in node.__dict__:  # Label / UntypedLabel keep a dict; Index / Branch compute `pairs` from `values`
                node.pairs[key] = obj
            else:
                node.values = type(node.values)(list(node.values) + [obj])

        def kid(node, i):
            return node.values[i]

        if b is None:
            return None
        if rl["where"] == "siblings":
            attach(root, "h1", a)
            attach(root, "h2", b)
        elif rl["where"] == "cousins":
            attach(kid(root, 1), "h", a)
            attach(kid(root, 2), "h", b)
        else:
            attach(root, "h", a)
            attach(kid(root, 2), "h", b)
        return root

    def shrink(self, case):
        yield from shrink_steps(case)
        from .base import _spec_variants

        for v in _spec_variants(case["defs"]["S"]):
            c = copy.deepcopy(case)
            c["defs"]["S"] = v
            yield c
        yield from shrink_records(case)


SCENARIO = C16()
