"""C11 -- pickling preserves content, equality and fillability (scenario `ship-by-pickle`).

The driver ships tasks (tree + state) to executors through PickleWire at
arbitrary points of a history: fresh, after fills, after merges, after a JSON
reload.  The clone and the original then receive the same further operations
(row fills, vector fills, merges) in lock step.
"""
import json
import pickle

from .. import observe, spec as specmod
from ..kernel import call, exc_site
from .pool import PoolScenario

QKINDS = [("lambda", 4), ("named", 2), ("def", 2), ("str", 3), ("cached", 2), ("cached_named", 1), ("selfc", 3), ("selfg", 2), ("selfk", 7), ("selfkw", 2), ("selfnest", 2), ("selfattr", 2)]


class C11(PoolScenario):
    prop = "C11"
    level = "exploration"
    profiles = ["ship-by-pickle"]
    budgets = {"quick": 16000, "thorough": 300000}
    wall_caps = {"quick": 110, "thorough": 1500}
    ops = {"new": 1, "fill": 8, "fillnumpy": 2, "add": 2, "iadd": 1.5, "ship": 1.5, "clone": 4, "pair": 10}
    wires = ["json", "jsonstr"]
    regimes = ["dyadic", "dyadic", "awkward"]  # awkward: non-dyadic edges, values on and next to them (clone and original must still agree exactly)
    spec_opts = {"qkinds": QKINDS}
    rule = ("one run = a history in which aggregators (fresh, filled, merged, reloaded from JSON) are cloned with "
            "pickle.loads(pickle.dumps(h)) at seeded points and clone and original then get identical row fills, "
            "vectorised fills and merges in lock step; quantity kinds: lambda, def, string expression, named, cached, "
            "self-contained lambda with defaults. Non-trivial: >= 1 clone of a state with >= 1 fill and >= 2 lock-step "
            "operations after it. Distinct: hash of (tree shapes, schedule shape).")
    assumptions = ["clone and original run the same arithmetic, so their observations are compared exactly",
                   "an operation that raises on the original must raise on the clone as well (and vice versa)"]
    expected_faults = ["ship_pickle"]
    expected_probes = ["clone_after_merge", "clone_of_reloaded", "lockstep_fill", "lockstep_numpy", "string_quantity", "clone_source_merged_in_place"]

    def gen_step(self, rng, ab, specs, recs, tier, si):
        out = super().gen_step(rng, ab, specs, recs, tier, si)
        for st in out:
            if st["op"] in ("fill", "fillnumpy", "iadd"):
                h = st.get("obj", st.get("l"))
                if h in ab.objs:
                    ab.objs[h]["twins"] = []
        return out

    def gen_special(self, op, st, s, ab, specs, recs):
        if op == "clone":
            h = s.pick(ab.handles())
            out = ab.new(ab.objs[h]["k"], ab.objs[h]["mut"], "ship:pickle")
            ab.objs[h].setdefault("twins", []).append(out)
            st.update(obj=h, out=out)
            return [st]
        if op == "pair":
            pairs = [(h, t) for h, o in ab.objs.items() for t in o.get("twins", []) if t in ab.objs]
            if not pairs:
                return []
            h, t = s.pick(pairs)
            what = s.pick(["fill", "fill", "fill", "fillnumpy", "add_other", "iadd_other", "reclone", "zero", "mul"])
            st.update(orig=h, replica=t, what=what)
            if what == "fill":
                st.update(rec=s.randrange(len(recs)), w=specmod.enc_float(s.pick(specmod.POS_WEIGHTS)))
            elif what == "fillnumpy":
                st.update(rows=[s.randrange(len(recs)) for _ in range(s.pick([1, 2, 4, 6]))], weights=s.pick(["one", 0.5, 2.0]),
                          box=s.pick(self.boxes))
            elif what in ("add_other", "iadd_other"):
                st["other"] = s.pick(ab.handles(k=ab.objs[h]["k"]))
                if what == "iadd_other":
                    # bins adopted from an immutable (reloaded) operand cannot be filled afterwards
                    for x in (h, t):
                        ab.objs[x]["mut"] = ab.objs[x]["mut"] and ab.objs[st["other"]]["mut"]
            elif what == "mul":
                st["f"] = s.pick([0.5, 2.0, 3])
            return [st]
        return super().gen_special(op, st, s, ab, specs, recs)

    # ------------------------------------------------------------------
    def compare(self, w, a, b, si, what):
        da, db = call(observe.observe, a), call(observe.observe, b)
        if da.ok != db.ok:
            bad = da if not da.ok else db
            raise self.violation(exc_site(bad.exc)[0], what, "replica-diverged:exception:%s" % type(bad.exc).__name__,
                                 "toJson after %s: original %s, clone %s" % (what, da.describe(), db.describe()), si)
        if not da.ok:
            return
        if da.value == db.value:
            # "identical serialised content": also the spelling of the numbers (6 is not 6.0 in a JSON text)
            ta, tb = call(lambda: json.dumps(a.toJson(), sort_keys=True)), call(lambda: json.dumps(b.toJson(), sort_keys=True))
            if ta.ok and tb.ok and ta.value != tb.value:
                i = next((k for k, (x, y) in enumerate(zip(ta.value, tb.value)) if x != y), 0)
                raise self.violation(getattr(a, "name", "?"), what, "replica-diverged:json-text",
                                     "after %s the original and its pickle clone serialise to different texts: ...%s... vs ...%s..." % (
                                         what, ta.value[max(0, i - 30): i + 20], tb.value[max(0, i - 30): i + 20]), si)
        if da.value != db.value:
            d = observe.doc_diff(da.value, db.value) or ([], "?", "?")
            raise self.violation(d[1], what, "replica-diverged:%s" % d[2],
                                 "after %s the original and its pickle clone differ at %s (%s.%s)" % (what, d[0], d[1], d[2]), si,
                                 {"original": da.value, "clone": db.value})

    def clone(self, w, obj, si):
        before = call(observe.observe, obj)
        methods = (hasattr(obj.fill, "numpy"), hasattr(obj.fill, "sparksql"), hasattr(obj, "plot"))
        o = call(pickle.dumps, obj)
        if not o.ok:
            raise self.violation(exc_site(o.exc)[0], "pickle", "exception:%s" % type(o.exc).__name__, "pickle.dumps raised %s" % o.describe(), si)
        after = call(observe.observe, obj)
        if before.ok and after.ok and before.value != after.value:
            d = observe.doc_diff(before.value, after.value) or ([], "?", "?")
            raise self.violation(d[1], "pickle", "operand-mutated:%s" % d[2], "pickle.dumps changed the original at %s" % (d[0],), si)
        if (hasattr(obj.fill, "numpy"), hasattr(obj.fill, "sparksql"), hasattr(obj, "plot")) != methods:
            raise self.violation(obj.name, "pickle", "operand-mutated:fill-methods",
                                 "pickle.dumps changed the original: fill.numpy / fill.sparksql / plot available before %s, after %s" % (
                                     methods, (hasattr(obj.fill, "numpy"), hasattr(obj.fill, "sparksql"), hasattr(obj, "plot"))), si)
        c = call(pickle.loads, o.value)
        if not c.ok:
            raise self.violation(exc_site(c.exc)[0], "pickle", "exception:%s" % type(c.exc).__name__, "pickle.loads raised %s" % c.describe(), si)
        w.bump("fault_ship_pickle")
        e = call(lambda: c.value == obj)
        if not e.ok:
            raise self.violation(exc_site(e.exc)[0], "pickle", "exception:%s" % type(e.exc).__name__, "clone == original raised %s" % e.describe(), si)
        self.compare(w, obj, c.value, si, "pickle")
        # (a bare Count gains fill.numpy by unpickling: offering more is fine, offering less is not)
        if (hasattr(obj.fill, "numpy") and not hasattr(c.value.fill, "numpy")) or (hasattr(obj.fill, "sparksql") and not hasattr(c.value.fill, "sparksql")):
            raise self.violation(obj.name, "pickle", "replica-diverged:fill-methods",
                                 "the pickle clone does not offer the same fill methods as the original (fill.numpy: original %s, clone %s)" % (
                                     hasattr(obj.fill, "numpy"), hasattr(c.value.fill, "numpy")), si)
        if not bool(e.value):
            raise self.violation(obj.name, "pickle", "eq-false-on-equal:pickle",
                                 "pickle clone does not compare equal to the original although their serialised content is identical", si,
                                 {"doc": before.value if before.ok else None})
        return c.value

    def apply_special(self, w, st, si):
        op = st["op"]
        if op == "clone":
            if not w.has(st["obj"]):
                return None, set()
            src = w.meta[st["obj"]]
            c = self.clone(w, w.heap[st["obj"]], si)
            w.put(st["out"], c, k=src["k"], via="ship:pickle", mut=src["mut"], twin=st["obj"], version=src.get("version", 0))
            src.setdefault("clones", {})[st["out"]] = src.get("version", 0)
            if src.get("via") == "add":
                w.bump("probe_clone_after_merge")
            if not src.get("mut", True):
                w.bump("probe_clone_of_reloaded")
            src["cloned_filled"] = src.get("fills", 0)
            return "clone", set()
        if op == "pair":
            if not w.has(st["orig"], st["replica"]):
                return None, set()
            ma, mb = w.meta[st["orig"]], w.meta[st["replica"]]
            if ma.get("clones", {}).get(st["replica"]) != ma.get("version", 0) or mb.get("version", 0) != ma.get("version", 0):
                return None, set()  # one side was changed on its own since the clone was taken
            a, b = w.heap[st["orig"]], w.heap[st["replica"]]
            what = st["what"]
            other = w.heap.get(st.get("other"))
            if what in ("add_other", "iadd_other") and (other is None or st["other"] in (st["orig"], st["replica"])):
                return None, set()
            if what in ("fill", "fillnumpy", "iadd_other") and not ma.get("mut", True) and what != "iadd_other":
                pass  # fills on a reloaded tree are expected to raise on both sides alike
            from ..kernel import box_fingerprint, make_box, weights_arg

            def do(x):
                if what == "fill":
                    return x.fill(w.records[st["rec"]], specmod.dec_float(st["w"]))
                if what == "fillnumpy":
                    box = make_box(w.records, st["rows"], st["box"])
                    wa = weights_arg(w.records, st["rows"], st["weights"], [])
                    return x.fill.numpy(box) if wa is None else x.fill.numpy(box, wa)
                if what == "add_other":
                    return x + other
                if what == "iadd_other":
                    y = x
                    y += other
                    return y
                if what == "reclone":
                    return pickle.loads(pickle.dumps(x))
                if what == "zero":
                    return x.zero()
                if what == "mul":
                    return x * st["f"]
                raise ValueError(what)

            if what == "fillnumpy" and (not hasattr(a.fill, "numpy") or not self.has_quantity(w.specs, ma["k"])):
                return None, set()
            if (what == "fill" and st["rec"] >= len(w.records)) or (what == "fillnumpy" and any(r >= len(w.records) for r in st["rows"])):
                return None, set()
            oa, ob = call(do, a), call(do, b)
            if oa.ok != ob.ok:
                bad = oa if not oa.ok else ob
                raise self.violation(exc_site(bad.exc)[0], what, "replica-diverged:exception:%s" % type(bad.exc).__name__,
                                     "original and pickle clone disagree on %s: original %s, clone %s" % (what, oa.describe(), ob.describe()), si)
            if not oa.ok:
                w.bump("probe_both_raise")
                if what in ("fill", "fillnumpy") and ma.get("mut", True):
                    # a fill of a live tree with valid data must not raise at all
                    raise self.violation(exc_site(oa.exc)[0], what, "exception:%s" % type(oa.exc).__name__,
                                         "%s raised on original and clone alike: %s" % (what, oa.describe()), si)
                # the failed operation may have changed both sides half-way: stop using the pair - and every clone taken of
                # either side before (thorough-tier false alarm: the replica's own clones were still treated as its mirrors)
                ma["version"] = ma.get("version", 0) + 1
                mb["version"] = mb.get("version", 0) + 1000003
                return "pair", set()
            if what == "iadd_other":
                om = w.meta.get(st["other"], {}).get("mut", True)
                ma["mut"] = ma.get("mut", True) and om
                mb["mut"] = mb.get("mut", True) and om
            if what in ("fill", "fillnumpy", "iadd_other"):
                ma["version"] = ma.get("version", 0) + 1
                mb["version"] = ma["version"]
                ma["clones"][st["replica"]] = ma["version"]
                self.compare(w, a, b, si, what)
                w.bump("probe_lockstep_" + ("numpy" if what == "fillnumpy" else "fill"))
                e = call(lambda: a == b)
                if e.ok and not bool(e.value):
                    raise self.violation(a.name, what, "eq-false-on-equal:pickle", "after lock-step %s clone != original although "
                                         "their serialised content is identical" % what, si)
            else:
                self.compare(w, oa.value, ob.value, si, what)
            return "pair", set()
        return super().apply_special(w, st, si)

    def run(self, case, w, R):
        R["shape"] = "|".join(specmod.shape_key(s) for s in case["specs"])
        if any((sp.get("q") or {}).get("kind") == "str" for s in case["specs"] for _, sp in specmod.walk(s)):
            w.bump("probe_string_quantity")
        clones_filled = 0
        lock = 0
        for si, st in enumerate(case["steps"]):
            o, writes = self.apply(w, st, si)
            op = st["op"]
            if o is None:
                continue
            if o == "clone":
                if w.meta[st["obj"]].get("fills", 0) >= 1:
                    clones_filled += 1
            elif o == "pair":
                lock += 1
            else:
                tgt = st.get("obj", st.get("l"))
                if op in ("fill", "fillnumpy"):
                    if w.meta[tgt].get("mut", True):
                        self.lib(o, op, si)
                    elif not o.ok:
                        w.bump("probe_fill_of_immutable_refused")
                    w.meta[tgt]["fills"] = w.meta[tgt].get("fills", 0) + 1
                    w.meta[tgt]["version"] = w.meta[tgt].get("version", 0) + 1
                elif op == "iadd":
                    # the target changed on its own: earlier clones no longer mirror it (a later clone does)
                    w.meta[tgt]["version"] = w.meta[tgt].get("version", 0) + 1
                    if o.ok:
                        w.meta[tgt]["fills"] = w.meta[tgt].get("fills", 0) + w.meta.get(st["r"], {}).get("fills", 0)
                        w.bump("probe_clone_source_merged_in_place")
                elif op == "add" and o.ok:
                    w.meta[st["out"]]["fills"] = w.meta[st["l"]].get("fills", 0) + w.meta[st["r"]].get("fills", 0)
                elif op == "ship" and o.ok:
                    w.meta[st["out"]]["fills"] = w.meta[st["obj"]].get("fills", 0)
                elif not o.ok:
                    w.bump("probe_op_failed_" + op)
            w.record_step(st)
        R["nontrivial"] = clones_filled >= 1 and lock >= 2
        R["units"] = lock


SCENARIO = C11()
