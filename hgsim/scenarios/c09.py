"""C09 -- equality is exactly equality of content (scenario `divergence-detector`).

Replica pairs are produced the way a deployment produces them -- copy(), pickle
clone, JSON reload of the immutable form.  Fault `doc_value_corrupt` changes one
thing in the serialised form of one replica while keeping the document valid;
all such single-point corruptions are enumerated per base state.  Mutable
replicas are made to diverge by delivery faults: one record twice, one record
lost, two weights exchanged.  Ground truth for "differs" is inequality of the
normalised documents.
"""
import copy
import json
import math
import pickle

from .. import grammar, observe, spec as specmod
from ..kernel import HarnessError, call, exc_site
from .base import Scenario, shrink_specs
from .c15 import gen_base, make_state


def _bump(v, how):
    x = grammar.num(v)
    if how == "ulp":
        if math.isnan(x) or math.isinf(x):
            return 0.0
        return math.nextafter(x, math.inf)
    if how == "one":
        if math.isnan(x) or math.isinf(x):
            return 1.0
        return x + 1.0
    if how == "nan":
        return "nan" if not (isinstance(v, str) and v == "nan") else 0.0
    raise ValueError(how)


def value_mutants(doc):
    """single-point value corruptions that keep the document inside the format: (kind, mutant)"""
    for path, t, f in list(grammar.walk(doc["type"], doc["data"], ("data",))):
        where = "%s@%s" % (t, "/".join(str(p) for p in path))
        g = grammar.G[t]
        if g is None:
            for how in ("ulp", "one"):
                m = copy.deepcopy(doc)
                grammar.set_path(m, path, _bump(f, how))
                yield "num:entries:%s %s" % (how, where), m
            continue
        for key, d in g["req"].items():
            if d[0] in ("num", "entries") and key in f:
                hows = ["ulp", "one"] + (["nan"] if d[0] == "num" and key not in ("low", "high", "binWidth") else [])
                for how in hows:
                    m = copy.deepcopy(doc)
                    nv = _bump(f[key], how)
                    if key == "low":
                        nv = grammar.num(f[key]) - (1.0 if how == "one" else 1e-9)
                    grammar.set_path(m, path + [key], nv)
                    yield "num:%s:%s %s" % (key, how, where), m
            elif d[0] == "list" and d[1][0] == "obj":
                for i, e in enumerate(f[key]):
                    for kk, dd in d[1][1].items():
                        if dd[0] == "num" and not (kk == "atleast" and i == 0):
                            for how in ("ulp", "one"):
                                m = copy.deepcopy(doc)
                                grammar.set_path(m, path + [key, i, kk], _bump(e[kk], how))
                                yield "num:%s:%s %s" % (kk, how, where), m
                # extra trailing element
                if f[key]:
                    m = copy.deepcopy(doc)
                    last = copy.deepcopy(f[key][-1])
                    for kk, dd in d[1][1].items():
                        if dd[0] == "num":
                            x = grammar.num(last[kk])
                            last[kk] = 1e9 if (math.isinf(x) or math.isnan(x)) else x + 7.0
                    grammar.get_path(m, path + [key]).append(last)
                    yield "trailing:%s %s" % (key, where), m
                    if len(f[key]) > d[2] and len(f[key]) > 1:
                        m = copy.deepcopy(doc)
                        grammar.get_path(m, path + [key]).pop()
                        yield "shorter:%s %s" % (key, where), m
            elif d[0] == "list" and d[1][0] in ("frag", "tagged"):
                if f[key]:
                    m = copy.deepcopy(doc)
                    grammar.get_path(m, path + [key]).append(copy.deepcopy(f[key][-1]))
                    yield "trailing:%s %s" % (key, where), m
                    if len(f[key]) > max(1, d[2]):
                        m = copy.deepcopy(doc)
                        grammar.get_path(m, path + [key]).pop()
                        yield "shorter:%s %s" % (key, where), m
                    if d[1][0] == "tagged":
                        for i, e in enumerate(f[key]):
                            if e["type"] != "Count":
                                m = copy.deepcopy(doc)
                                grammar.set_path(m, path + [key, i], {"type": "Count", "data": 0.0})
                                yield "child-replaced:%s %s" % (key, where), m
            elif d[0] == "map":
                keys = sorted(f[key])
                if not keys and (key + ":type") in f:
                    # an empty sparse container still says what its bins would hold
                    m = copy.deepcopy(doc)
                    grammar.set_path(m, path + [key + ":type"], "Sum" if f[key + ":type"] != "Sum" else "Count")
                    yield "empty-content-type:%s %s" % (key, where), m
                if keys:
                    k0 = keys[0]
                    m = copy.deepcopy(doc)
                    del grammar.get_path(m, path + [key])[k0]
                    if not (d[2] == "str1" and len(keys) == 1):
                        yield "key-removed:%s %s" % (key, where), m
                    m = copy.deepcopy(doc)
                    mm = grammar.get_path(m, path + [key])
                    newk = str(int(k0) + 1000003) if d[2] == "int" else k0 + "_renamed"
                    if newk not in mm:
                        mm[newk] = mm.pop(k0)
                        yield "key-renamed:%s %s" % (key, where), m
                    m = copy.deepcopy(doc)
                    mm = grammar.get_path(m, path + [key])
                    newk = str(int(k0) + 1000003) if d[2] == "int" else k0 + "_added"
                    if newk not in mm:
                        mm[newk] = copy.deepcopy(mm[k0])
                        yield "key-added:%s %s" % (key, where), m
                    if (key + ":type") in f and f[key + ":type"] == "Count":
                        # one more bin that holds nothing: still one more bin
                        m = copy.deepcopy(doc)
                        mm = grammar.get_path(m, path + [key])
                        newk = str(int(k0) + 2000003) if d[2] == "int" else k0 + "_empty"
                        if newk not in mm:
                            mm[newk] = 0.0
                            yield "key-added-empty:%s %s" % (key, where), m
                    if d[1][0] == "tagged" and f[key][k0]["type"] != "Count":
                        m = copy.deepcopy(doc)
                        grammar.set_path(m, path + [key, k0], {"type": "Count", "data": 0.0})
                        yield "child-replaced:%s %s" % (key, where), m
            elif d[0] == "bagvalues":
                vals = f[key]
                if vals:
                    m = copy.deepcopy(doc)
                    grammar.get_path(m, path + [key]).pop(0)
                    yield "key-removed:values %s" % where, m
                    for how in ("ulp", "one"):
                        m = copy.deepcopy(doc)
                        grammar.set_path(m, path + [key, 0, "w"], _bump(vals[0]["w"], how))
                        yield "num:w:%s %s" % (how, where), m
                    v0 = vals[0]["v"]
                    m = copy.deepcopy(doc)
                    if isinstance(v0, str) and v0 not in grammar.SPECIALS:
                        nv = v0 + "_renamed"
                    elif isinstance(v0, list):
                        nv = [(_bump(x, "one")) for x in v0]
                    else:
                        nv = _bump(v0, "one")
                    if not any(e["v"] == nv for e in vals):
                        grammar.set_path(m, path + [key, 0, "v"], nv)
                        yield "key-renamed:values %s" % where, m
                rng_ = f["range"]
                extra = {"S": "zz_added", "N": 123456.5}.get(rng_)
                if extra is None and rng_.startswith("N"):
                    try:
                        extra = [123456.5] * int(rng_[1:])
                    except ValueError:
                        extra = None
                if extra is not None and not any(e["v"] == extra for e in vals):
                    m = copy.deepcopy(doc)
                    grammar.get_path(m, path + [key]).append({"w": 0.0, "v": extra})
                    yield "key-added-zero-weight:values %s" % where, m


def raw_same(a, b):
    """exact equality of two toJson() documents: numbers by value (ints are not rounded to floats), NaN equal to NaN"""
    na, nb = grammar.is_num(a) and not isinstance(a, bool), grammar.is_num(b) and not isinstance(b, bool)
    if na and nb:
        x, y = (float(a) if isinstance(a, str) else a), (float(b) if isinstance(b, str) else b)
        if x != x or y != y:
            return x != x and y != y
        return x == y
    if na != nb:
        return False
    if isinstance(a, dict) and isinstance(b, dict):
        return set(a) == set(b) and all(raw_same(a[k], b[k]) for k in a)
    if isinstance(a, (list, tuple)) and isinstance(b, (list, tuple)):
        return len(a) == len(b) and all(raw_same(x, y) for x, y in zip(a, b))
    return a == b


BIG = [2 ** 53 + 2, 1700000000000000000, 2 ** 62 + 12345, -(2 ** 60) - 6, 10 ** 17]


class C09(Scenario):
    prop = "C09"
    level = "fault_enumeration"
    profiles = ["document", "delivery", "built"]
    budgets = {"quick": 8000, "thorough": 150000}
    wall_caps = {"quick": 110, "thorough": 1500}
    block = 16
    rule = ("profile `document`: one run = one base state (seeded tree, fills, optional merge) whose replicas by copy(), "
            "pickle and JSON reload must compare equal (==, mirrored ==, !=; tolerances 0 and 1e-12), and for which every "
            "single-point value corruption of its document that stays inside the format is enumerated (one number by one "
            "ulp / by 1 / to NaN, one sparse / category / bag key removed, renamed or added, one trailing bin / threshold / "
            "centre / child appended or dropped, one nested child replaced); each loaded corrupted replica must compare "
            "unequal to the clean reload whenever their normalised documents differ. Profile `delivery`: two mutable "
            "replicas fed one stream, one of them with a duplicated record, a lost record or two weights exchanged. "
            "units_checked = replica pairs compared. Non-trivial: >= 10 corrupted pairs with differing documents. Distinct: "
            "hash of (tree shape, number of pairs).")
    assumptions = ["ground truth for 'differs' is inequality of the normalised toJson() documents",
                   "quantity names / functions are not corrupted (not content)", "a corrupted document the library refuses to "
                   "load is skipped and counted (C15's business)"]
    expected_faults = ["doc_value_corrupt", "dup_record", "lost_record", "weight_swap", "bigint_off_by_one"]
    expected_probes = ["pair_differs_one_ulp", "pair_differs_key", "pair_differs_trailing", "clean_pair_equal", "tolerance_pair", "equal_after_history", "built_stack", "built_fraction", "tolerant_then_exact",
                       ]

    def generate(self, rng, tier, profile):
        sp, recs, fills, fills2 = gen_base(rng, tier, max_fill=14)
        case = {"spec": sp, "records": [specmod.enc_record(r) for r in recs], "fills": fills, "fills2": fills2, "kind": profile,
                "scales": rng.fork("scales").pick([None, None, None, None, None, [2.0], [0.5, 3]]) if profile == "document" else None}
        if profile == "delivery":
            f = rng.fork("faults")
            n = max(1, len(fills))
            case["fills2"] = None
            flds = sorted(set(nd["f"] for nd in specmod.nodes(sp) if nd["f"] in ("x", "y"))) or ["x"]
            case["steps"] = [{"op": "deliver", "fault": f.pick(["dup_record", "lost_record", "weight_swap", "bigint_off_by_one"]),
                              "i": f.randrange(n), "j": f.randrange(n), "big": f.pick(BIG), "field": f.pick(flds),
                              "delta": f.pick([1, 1, 2, -1, 100])} for _ in range(6)]
        elif profile == "built":
            s_ = rng.fork("knobs")
            kind = s_.pick(["stack", "stack", "fraction"])
            nl = 2 if kind == "fraction" else s_.randint(1, 4)
            case["kind"] = "document"
            case["fills2"] = None
            case["built"] = {"kind": kind, "layers": [[[s_.randrange(len(recs)), s_.pick(specmod.POS_WEIGHTS)] for _ in range(s_.randint(0, 6))]
                                                      for _ in range(nl)]}
            case["steps"] = [{"op": "enumerate", "only": None}]
        else:
            case["steps"] = [{"op": "enumerate", "only": None}]
        return case

    # ------------------------------------------------------------------
    def _eq3(self, a, b):
        return call(lambda: a == b), call(lambda: b == a), call(lambda: a != b)

    def _must_equal(self, a, b, how, prim, si, w):
        e1, e2, ne = self._eq3(a, b)
        for o in (e1, e2, ne):
            if not o.ok:
                raise self.violation(exc_site(o.exc)[0], "eq", "exception:%s" % type(o.exc).__name__,
                                     "comparison of an aggregator with its %s replica raised %s" % (how, o.describe()), si)
        if not bool(e1.value) or not bool(e2.value):
            raise self.violation(prim, "eq", "eq-false-on-equal:%s" % how,
                                 "an aggregator does not compare equal to its %s replica (a == b: %r, b == a: %r)" % (how, e1.value, e2.value), si)
        if bool(ne.value):
            raise self.violation(prim, "ne", "ne-true-on-equal:%s" % how, "a != b is %r for an aggregator and its %s replica" % (ne.value, how), si)
        w.bump("probe_clean_pair_equal")

    def _must_differ(self, a, b, kind, prim, si, detail):
        e1, e2, ne = self._eq3(a, b)
        if e1.ok != e2.ok:
            bad = e1 if not e1.ok else e2
            raise self.violation(prim, "eq", "eq-asymmetric:%s" % kind.split(" ")[0],
                                 "a == b and b == a disagree: one raised %s, the other returned %r" % (
                                     bad.describe(), (e2 if not e1.ok else e1).value), si, detail)
        if not e1.ok:
            return
        if bool(e1.value) or bool(e2.value):
            raise self.violation(prim, "eq", "eq-true-on-different:%s" % kind.split(" ")[0],
                                 "two aggregators whose content differs (%s) compare equal (a == b: %r, b == a: %r)" % (kind, e1.value, e2.value),
                                 si, detail)
        if ne.ok and not bool(ne.value):
            raise self.violation(prim, "ne", "ne-false-on-different:%s" % kind.split(" ")[0], "a != b is %r for different content (%s)" % (ne.value, kind), si, detail)

    def _state(self, w, case, part=None):
        """the base state of a run: the seeded tree after its fills, or - profile `built` - a Stack / Fraction assembled by
        Stack.build / Fraction.build from separately filled layers (their thresholds are NaN by design)"""
        import histogrammar as hg

        b = case.get("built")
        if not b:
            return make_state(self, w, case if part is None else part)
        layers = [make_state(self, w, {"fills": (fl if part is None else fl[: max(0, len(fl) // 2)]), "fills2": None}) for fl in b["layers"]]
        o = call((lambda: hg.Stack.build(*layers)) if b["kind"] == "stack" else (lambda: hg.Fraction.build(layers[0], layers[1])))
        if not o.ok:
            raise self.violation(exc_site(o.exc)[0], "build", "exception:%s" % type(o.exc).__name__,
                                 "%s.build of layers of one tree raised %s" % (b["kind"], o.describe()), 0)
        w.bump("probe_built_" + b["kind"])
        return o.value

    def run(self, case, w, R):
        import histogrammar as hg
        import histogrammar.util as util

        sp = case["spec"]
        if case.get("kind") == "delivery":
            return self.run_delivery(case, w, R)
        h = self._state(w, case)
        try:
            doc = json.loads(json.dumps(h.toJson()))
        except (TypeError, ValueError):
            w.bump("probe_base_state_not_serialisable")  # C04's business (strict JSON)
            return
        ndoc = observe.normalise(doc)
        root = doc["type"]
        if case.get("built"):
            # a second, independent build from equal layers is a replica too
            self._must_equal(h, self._state(w, case), "second-build", root, 0, w)
        # clean replicas
        for how, mk in (("copy", lambda: h.copy()), ("pickle", lambda: pickle.loads(pickle.dumps(h))), ("self", lambda: h)):
            o = call(mk)
            if not o.ok:
                continue  # copy / pickle failing is C04 / C11's business
            self._must_equal(h, o.value, how, root, 0, w)
        # the same comparisons again after the object has been compared and then merged into in place: a comparison must
        # not leave anything behind that a later += invalidates
        hh = self._state(w, case)
        other = self._state(w, case, {"fills": case["fills"][::-1][: max(1, len(case["fills"]) // 2)], "fills2": None})
        call(lambda: hh == hh.copy())

        def _iadd():
            x = hh
            x += other
            return x

        if call(_iadd).ok:
            for how, mk in (("copy-after-iadd", lambda: hh.copy()), ("pickle-after-iadd", lambda: pickle.loads(pickle.dumps(hh))),
                            ("add-after-iadd", lambda: hh + hh.zero())):
                o = call(mk)
                if o.ok:
                    self._must_equal(hh, o.value, how, root, 0, w)
            w.bump("probe_equal_after_history")
        a = call(hg.Factory.fromJson, copy.deepcopy(doc))
        a2 = call(hg.Factory.fromJson, copy.deepcopy(doc))
        if not a.ok or not a2.ok:
            raise self.violation(exc_site((a if not a.ok else a2).exc)[0], "fromJson", "rejected-control", "clean document rejected", 0)
        self._must_equal(a.value, a2.value, "json", root, 0, w)
        old = (util.relativeTolerance, util.absoluteTolerance)
        try:
            util.relativeTolerance = util.absoluteTolerance = 1e-12
            self._must_equal(a.value, a2.value, "json-tol", root, 0, w)
            c = call(h.copy)
            if c.ok:
                self._must_equal(h, c.value, "copy-tol", root, 0, w)
            w.bump("probe_tolerance_pair")
        finally:
            util.relativeTolerance, util.absoluteTolerance = old
        st = case["steps"][0] if case["steps"] else {"only": None}
        only = st.get("only")
        units = 0
        differing = 0
        for kind, m in value_mutants(doc):
            if only is not None and kind != only:
                continue
            nm = observe.normalise(m)
            if not grammar.valid_document(nm):
                w.bump("probe_value_mutant_left_format")
                continue
            b = call(hg.Factory.fromJson, copy.deepcopy(m))
            if not b.ok:
                w.bump("probe_mutant_refused_by_library")
                continue
            bdoc = call(lambda: observe.normalise(b.value.toJson()))
            if not bdoc.ok:
                continue
            units += 1
            w.bump("fault_doc_value_corrupt")
            if bdoc.value == ndoc:
                w.bump("probe_corruption_normalised_away")
                continue
            differing += 1
            if ":ulp" in kind:
                w.bump("probe_pair_differs_one_ulp")
            if kind.startswith("key-"):
                w.bump("probe_pair_differs_key")
            if kind.startswith("trailing") or kind.startswith("shorter"):
                w.bump("probe_pair_differs_trailing")
            prim = kind.split(" ")[1].split("@")[0]
            if ":ulp" in kind:
                try:
                    util.relativeTolerance = util.absoluteTolerance = 1e-9
                    call(lambda: a.value == b.value)  # may well be True: a tolerance widens the comparison
                    w.bump("probe_tolerant_then_exact")
                finally:
                    util.relativeTolerance, util.absoluteTolerance = old
            self._must_differ(a.value, b.value, kind, prim, 0, {"mutation": kind, "clean": ndoc, "corrupted": bdoc.value})
        w.record_step({"op": "enumerate", "n": units}, {0: observe.obs_hash(ndoc)})
        R["shape"] = "%s|%d" % (specmod.shape_key(sp), units)
        R["nontrivial"] = differing >= 10
        R["units"] = units

    def run_delivery(self, case, w, R):
        sp = case["spec"]
        fills = case["fills"]
        units = 0
        differing = 0
        for si, st in enumerate(case["steps"]):
            fl = [list(x) for x in fills]
            fault = st["fault"]
            if not fl:
                continue
            i, j = st["i"] % len(fl), st["j"] % len(fl)
            saved = w.records
            ri = fl[i][0]
            if fault == "bigint_off_by_one" and ri < len(saved):
                # one record carries a 64-bit integer (an event number, a nanosecond time stamp) in one replica and a
                # neighbouring integer in the other: closer together than the spacing of doubles up there
                w.records = list(saved)
                w.records[ri] = dict(saved[ri], **{st.get("field", "x"): int(st.get("big", BIG[0]))})
            try:
                a = make_state(self, w, {"fills": fills, "fills2": None}, si)
            finally:
                w.records = saved
            if fault == "bigint_off_by_one":
                if ri < len(saved):
                    w.records = list(saved)
                    w.records[ri] = dict(saved[ri], **{st.get("field", "x"): int(st.get("big", BIG[0])) + int(st.get("delta", 1))})
            elif fault == "dup_record":
                fl.insert(i, list(fl[i]))
            elif fault == "lost_record":
                fl.pop(i)
            else:
                fl[i][1], fl[j][1] = fl[j][1], fl[i][1]
            try:
                b = make_state(self, w, {"fills": fl, "fills2": None}, si)
            finally:
                w.records = saved
            w.bump("fault_" + fault)
            ra, rb = call(a.toJson), call(b.toJson)
            if not ra.ok or not rb.ok:
                continue
            da, db = observe.normalise(ra.value), observe.normalise(rb.value)
            units += 1
            if raw_same(ra.value, rb.value):
                self._must_equal(a, b, "same-stream", sp["p"], si, w)
            else:
                differing += 1
                if da == db:
                    w.bump("probe_bigint_visible")  # the documents differ only below the resolution of a double
                d = observe.doc_diff(da, db) or ([], sp["p"], "?")
                self._must_differ(a, b, "%s %s" % (fault, d[1]), d[1], si, {"fault": fault, "one": da, "other": db})
            w.record_step(st, {0: observe.obs_hash(da), 1: observe.obs_hash(db)})
        R["shape"] = "%s|d%d" % (specmod.shape_key(sp), units)
        R["nontrivial"] = differing >= 2
        R["units"] = units

    def shrink(self, case):
        from .base import shrink_steps

        if case.get("kind") == "delivery":
            yield from shrink_steps(case)
        else:
            st = case["steps"][0]
            if st.get("only") is None:
                res = self.execute(case)
                v = res.get("violation")
                if v and v.get("detail") and "mutation" in v["detail"]:
                    c = copy.deepcopy(case)
                    c["steps"][0]["only"] = v["detail"]["mutation"]
                    yield c
        for key in ("fills", "fills2"):
            if case.get(key):
                c = copy.deepcopy(case)
                c[key] = c[key][:-1]
                if case.get("kind") != "delivery":
                    c["steps"][0]["only"] = None
                yield c
        if case.get("fills2") is not None:
            c = copy.deepcopy(case)
            c["fills2"] = None
            if case.get("kind") != "delivery":
                c["steps"][0]["only"] = None
            yield c
        for c in shrink_specs(case):
            if case.get("kind") != "delivery":
                c["steps"][0]["only"] = None
            yield c


SCENARIO = C09()
