"""Common parts of scenarios: result assembly, generic shrinkers over the standard
case layout (``spec``/``specs``, ``records``, ``steps``)."""
import copy
import hashlib
import json

from .. import gate, observe, spec as specmod
from ..kernel import HarnessError, Violation, World, call


def h16(x):
    return hashlib.sha256(json.dumps(x, sort_keys=True, default=str).encode()).hexdigest()[:16]


class Scenario:
    prop = "C00"
    level = "exploration"
    profiles = ["default"]
    budgets = {"quick": 1000, "thorough": 20000}
    wall_caps = {"quick": 100, "thorough": 900}
    block = 64
    minimise_s = 25.0
    rule = ""
    assumptions = []
    expected_faults = []
    expected_probes = []

    # ------------------------------------------------------------------ to be provided
    def generate(self, rng, tier, profile):
        raise NotImplementedError

    def run(self, case, w, R):
        """Execute the case against world ``w``; raise Violation; fill R (result dict)."""
        raise NotImplementedError

    # ------------------------------------------------------------------ provided
    def execute(self, case):
        w = World(case)
        R = {"faults": {}, "probes": {}, "nontrivial": False, "shape": "", "units": 0}
        try:
            try:
                self.run(case, w, R)
                R["violation"] = None
            except Violation as v:
                R["violation"] = v.to_json()
            except (HarnessError, KeyboardInterrupt, SystemExit):
                raise
            except BaseException as e:  # noqa
                from ..kernel import RunTimeout, exc_site, exception_origin

                if isinstance(e, (RunTimeout, MemoryError, RecursionError)) or exception_origin(e) != "library":
                    raise
                # the library raised inside a call the scenario makes unguarded because it must always succeed
                # (typically toJson() of a live object): the state it reached is not even observable
                site = exc_site(e)
                R["violation"] = Violation(self.prop, site[0], site[1], "exception:%s" % type(e).__name__,
                                           "%s.%s raised %s(%s) in an operation that must always succeed (observation of a live "
                                           "aggregator)" % (site[0], site[1], type(e).__name__, str(e)[:200])).to_json()
            R["digest"] = w.digest()
            R["steps"] = w.nsteps
            R["states"] = len(w.state_hashes)
            R["schedule"] = h16(w.schedule_shape)
            for k, v in w.stats.items():
                if k.startswith("fault_"):
                    R["faults"][k[6:]] = R["faults"].get(k[6:], 0) + v
                elif k.startswith("probe_"):
                    R["probes"][k[6:]] = R["probes"].get(k[6:], 0) + v
            if R["shape"] == "":
                R["shape"] = R["schedule"]
            else:
                R["shape"] = h16([R["shape"], R["schedule"]])
        finally:
            w.close()
        return R

    def sample(self, case, res):
        c = {k: v for k, v in case.items() if k not in ("records",)}
        c["n_records"] = len(case.get("records", []))
        if "records" in case:
            c["records_head"] = case["records"][:3]
        if "steps" in c and len(c["steps"]) > 40:
            c["steps"] = c["steps"][:40] + ["... %d more" % (len(case["steps"]) - 40)]
        return c

    # ------------------------------------------------------------------ generic shrinking
    def shrink(self, case):
        yield from shrink_steps(case)
        yield from shrink_specs(case)
        yield from shrink_records(case)

    # helpers
    def violation(self, culprit, op, kind, msg, step=None, detail=None):
        return Violation(self.prop, culprit, op, kind, msg, step, detail)

    _open = None

    def open_signatures(self):
        if Scenario._open is None:
            from ..engine import load_findings

            Scenario._open = set(d.get("sig") for d in load_findings()[0])
        return Scenario._open

    def soft(self, v, R):
        """Raise the violation unless its signature is an open known finding, in which case it is counted and the
        scenario (which must be able to resynchronise) carries on."""
        if v.signature in self.open_signatures():
            R.setdefault("known", {})
            R["known"][v.signature] = R["known"].get(v.signature, 0) + 1
            return
        raise v


def shrink_steps(case, key="steps"):
    steps = case.get(key) or []
    n = len(steps)
    if n == 0:
        return
    chunk = max(1, n // 2)
    while chunk >= 1:
        i = 0
        while i < n:
            c = copy.deepcopy(case)
            c[key] = steps[:i] + steps[i + chunk:]
            if len(c[key]) < n:
                yield c
            i += chunk
        if chunk == 1:
            break
        chunk = max(1, chunk // 2)


def _spec_replacements(s):
    """smaller variants of one spec node (not recursive)"""
    p = s["p"]
    if p != "Count":
        yield {"p": "Count"}
    for name, c in specmod.child_slots(s):
        if ":" not in name:
            # promote the child
            yield copy.deepcopy(c)
            # use the default
            t = copy.deepcopy(s)
            t[name] = None
            yield t
    if p in ("Label", "UntypedLabel") and len(s["pairs"]) > 1:
        for k in list(s["pairs"]):
            t = copy.deepcopy(s)
            del t["pairs"][k]
            yield t
    if p in ("Index", "Branch") and len(s["values"]) > 1:
        for i in range(len(s["values"])):
            t = copy.deepcopy(s)
            del t["values"][i]
            yield t
    if p in ("Label", "UntypedLabel"):
        for c in s["pairs"].values():
            yield copy.deepcopy(c)
    if p in ("Index", "Branch"):
        for c in s["values"]:
            yield copy.deepcopy(c)
    if p == "Bin" and s["num"] > 1:
        t = copy.deepcopy(s)
        bw = (s["high"] - s["low"]) / s["num"]
        t["num"] = 1
        t["high"] = s["low"] + bw
        yield t
    for key in ("centers",):
        if key in s and len(s[key]) > 2:
            t = copy.deepcopy(s)
            t[key] = s[key][:2]
            yield t
    for key in ("edges", "thresholds"):
        if key in s and len(s[key]) > 1:
            t = copy.deepcopy(s)
            t[key] = s[key][:1]
            yield t
    q = s.get("q")
    if q and q["kind"] != "lambda" and q["kind"] != "str":
        t = copy.deepcopy(s)
        t["q"] = {"f": q["f"], "kind": "lambda"}
        yield t


def _spec_variants(s):
    """all single-node reductions anywhere in the tree"""
    yield from _spec_replacements(s)
    for name, c in specmod.child_slots(s):
        for v in _spec_variants(c):
            t = copy.deepcopy(s)
            if name.startswith("pairs:"):
                t["pairs"][name[6:]] = v
            elif name.startswith("values:"):
                t["values"][int(name[7:])] = v
            else:
                t[name] = v
            # Label / Index children must keep one type
            if t["p"] in ("Label", "Index"):
                kids = list(t["pairs"].values()) if t["p"] == "Label" else t["values"]
                if len(set(k["p"] for k in kids)) > 1:
                    continue
            yield t


def shrink_specs(case):
    if "spec" in case:
        for v in _spec_variants(case["spec"]):
            c = copy.deepcopy(case)
            c["spec"] = v
            yield c
    if "specs" in case:
        for i, s in enumerate(case["specs"]):
            for v in _spec_variants(s):
                c = copy.deepcopy(case)
                c["specs"][i] = v
                yield c


SIMPLE = {"x": 0.0, "y": 0.0, "c": 1.0, "b": True, "s": "a", "t": "a"}


def shrink_records(case):
    recs = case.get("records") or []
    for i, r in enumerate(recs):
        if all(r.get(k) == v for k, v in SIMPLE.items()):
            continue
        c = copy.deepcopy(case)
        c["records"][i] = dict(SIMPLE)
        yield c
    for i, r in enumerate(recs):
        for k, v in SIMPLE.items():
            if r.get(k) != v:
                c = copy.deepcopy(case)
                c["records"][i][k] = v
                yield c
