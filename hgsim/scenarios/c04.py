"""C04 -- JSON is lossless, strict, and the reload is a first-class container
(scenario `checkpoint-replica`).

A pool history (fills, +, *, copy -- only the operations C04 lists) produces
states.  At seeded points an object is checkpointed through JsonWire (string),
plain fromJson(dict) or FileWire (SimDisk) and a replica is restored from it.
From then on the original and the replica receive the same pure operations in
lock step.  Fault `torn_write`/`short_read` on the file variant: the reload must
raise.
"""
import json

from .. import grammar, model, observe, spec as specmod
from ..kernel import call, exc_site
from .c01 import model_tol, tol_for
from .pool import FACTORS_ODD, FACTORS_POS, PoolScenario, hashes, snapshot_docs


class C04(PoolScenario):
    prop = "C04"
    level = "exploration"
    profiles = ["checkpoint-replica"]
    budgets = {"quick": 10000, "thorough": 200000}
    wall_caps = {"quick": 110, "thorough": 1500}
    ops = {"new": 1, "fill": 8, "add": 3, "mul": 1.5, "copy": 1, "checkpoint": 4, "pair_op": 7, "torn": 0.5, "underflow": 0.4}
    rule = ("one run = a pool history of fills, +, * and copy on trees that place every primitive in every child / "
            "flow slot (named and unnamed quantities, NaN / +-inf contents, negative sparse indices, sparse containers "
            "that are still empty); at seeded points an object is checkpointed through a JSON string, a plain dict or a "
            "file on the simulated disk and a replica restored; afterwards original and replica get the same +, *, "
            "zero, copy and re-checkpoint operations in lock step. Non-trivial: >= 1 checkpoint of a state with >= 2 "
            "fills and >= 2 lock-step operations. Distinct: hash of (tree shapes, schedule shape).")
    assumptions = ["'same observation' is exact on exact fields and within the run-derived tolerance on mean/variance "
                   "(the document stores variance, the object variance*entries)",
                   "torn / short file contents must make fromJsonFile raise (it is json's parser that notices)"]
    expected_faults = ["restore", "torn_write", "short_read"]
    expected_probes = ["empty_sparse_checkpoint", "nonfinite_in_document", "negative_sparse_index", "lockstep_ops", "replica_merged_then_reloaded", "underflow_state_checkpointed"]
    spec_opts = {"p_default": 0.3}
    record_opts = {"no_none": False, "numeric_cuts": False, "big_ints": 0.02}

    def gen_step(self, rng, ab, specs, recs, tier, si):
        out = super().gen_step(rng, ab, specs, recs, tier, si)
        for st in out:
            if st["op"] == "fill" and st["obj"] in ab.objs:
                ab.objs[st["obj"]]["twins"] = []  # the replica mirrors the state at the checkpoint only
        return out

    def gen_special(self, op, st, s, ab, specs, recs):
        if op == "checkpoint":
            h = s.pick(ab.handles())
            wire = s.pick(["json", "jsonstr", "file"])
            out = ab.new(ab.objs[h]["k"], False, "ship:" + wire, twin=h)
            ab.objs[h].setdefault("twins", []).append(out)
            st.update(obj=h, wire=wire, out=out)
            return [st]
        if op == "pair_op":
            pairs = [(h, t) for h, o in ab.objs.items() for t in o.get("twins", []) if t in ab.objs]
            if not pairs:
                return []
            h, t = s.pick(pairs)
            what = s.pick(["add_other", "other_add", "mul", "zero", "copy", "recheck", "add_self", "iadd_then_reload"])
            st.update(orig=h, replica=t, what=what)
            if what in ("add_other", "other_add", "iadd_then_reload"):
                cands = [x for x in ab.handles(k=ab.objs[h]["k"])]
                st["other"] = s.pick(cands)
            if what == "mul":
                st["f"] = specmod.enc_float(s.pick(FACTORS_ODD) if s.chance(0.15) else s.pick(FACTORS_POS))
            o1 = ab.new(ab.objs[h]["k"], False, "pair")
            o2 = ab.new(ab.objs[h]["k"], False, "pair", twin=o1)
            ab.objs[o1].setdefault("twins", []).append(o2)
            st.update(out=o1, out2=o2)
            return [st]
        if op == "torn":
            h = s.pick(ab.handles())
            st.update(obj=h, how=s.pick(["torn", "short"]), frac=s.pick([0.0, 0.3, 0.5, 0.8, 0.97]))
            return [st]
        if op == "underflow":
            # scaled until the weights underflow to 0.0 and checkpointed at once: whatever the numbers of such a state mean, a
            # reload must not drop or add bins, keys or children
            h = s.pick(ab.handles())
            st.update(obj=h, fs=s.pick([[1e-200, 1e-200], [5e-324, 0.5]]), wire=s.pick(["json", "jsonstr", "file"]))
            return [st]
        return super().gen_special(op, st, s, ab, specs, recs)

    # ------------------------------------------------------------------
    def _culprit(self, d, default):
        return d[1] if d else default

    def _checkpoint(self, w, st, si, obj, wire, tag, cover=None, k=0, structure_only=False):
        """serialise, check strictness / fixpoint / equality, return the replica.  When the (record, weight) multiset the
        object represents is known, the document is also compared with the reference model's document, which carries
        the quantity names every node must serialise (name, values:name, bins:name, sub:name)."""
        import histogrammar as hg

        root = type(obj).__name__
        o = call(obj.toJson)
        if not o.ok:
            raise self.violation(exc_site(o.exc)[0], "toJson", "exception:%s" % type(o.exc).__name__,
                                 "toJson raised %s" % o.describe(), si)
        doc = o.value
        try:
            text = json.dumps(doc, allow_nan=False)
        except (ValueError, TypeError) as e:
            raise self.violation(obj.name, "toJson", "strict-json", "json.dumps(toJson(), allow_nan=False) failed: %r" % (e,), si,
                                 {"doc": repr(doc)[:2000]})
        ndoc = observe.normalise(doc)
        if not grammar.valid_document(ndoc):
            w.bump("probe_document_outside_grammar")
        if cover is not None:
            mod = model.model_doc(w.specs[k], [(w.records[i], wt) for i, wt in cover])
            d = observe.doc_diff(ndoc, mod, model_tol(w, tol_for(w.records, len(cover) + 4 * si + 8)))
            w.bump("probe_document_vs_model")
            if d is not None:
                raise self.violation(d[1], "toJson", "content:%s" % d[2],
                                     "the serialised document differs from the reference document (contents and quantity names) at %s (%s.%s)" % (
                                         d[0], d[1], d[2]), si, {"observed": ndoc, "expected": mod})
        self._doc_probes(w, ndoc)
        if wire == "json":
            r = call(hg.Factory.fromJson, json.loads(text))
        elif wire == "jsonstr":
            o2 = call(obj.toJsonString)
            if not o2.ok:
                raise self.violation(obj.name, "toJsonString", "exception:%s" % type(o2.exc).__name__, o2.describe(), si)
            # both entry points that take a text
            r = call(hg.Factory.fromJsonString, o2.value) if si % 2 else call(hg.Factory.fromJson, o2.value)
        else:
            name = "ckpt-%d-%s.json" % (si, tag)
            o2 = call(obj.toJsonFile, name)
            if not o2.ok:
                raise self.violation(obj.name, "toJsonFile", "exception:%s" % type(o2.exc).__name__, o2.describe(), si)
            r = call(hg.Factory.fromJsonFile, name)
        if not r.ok:
            raise self.violation(exc_site(r.exc)[0], "fromJson", "exception:%s" % type(r.exc).__name__,
                                 "a document produced by toJson was not accepted: %s" % r.describe(), si, {"doc": ndoc})
        rep = r.value
        o3 = call(rep.toJson)
        if not o3.ok:
            raise self.violation(exc_site(o3.exc)[0], "toJson", "exception:%s" % type(o3.exc).__name__,
                                 "toJson of the reloaded container raised %s" % o3.describe(), si, {"doc": ndoc})
        rdoc = observe.normalise(o3.value)
        if structure_only:
            def skeleton(x):
                if isinstance(x, dict):
                    return {k_: skeleton(v_) for k_, v_ in x.items()}
                if isinstance(x, list):
                    return [skeleton(v_) for v_ in x]
                return "#" if grammar.is_num(x) else x

            if skeleton(rdoc) != skeleton(ndoc):
                d = observe.doc_diff(skeleton(ndoc), skeleton(rdoc)) or ([], obj.name, "?")
                raise self.violation(d[1], "fromJson", "fixpoint-structure:%s" % d[2],
                                     "the reload of an underflow-scaled state has another structure than its document at %s" % (d[0],), si,
                                     {"doc": ndoc, "again": rdoc})
            return r.value
        if rdoc != ndoc:
            d = observe.doc_diff(ndoc, rdoc)
            raise self.violation(self._culprit(d, obj.name), "fromJson", "fixpoint:%s" % (d[2] if d else "?"),
                                 "toJson(fromJson(doc)) differs from doc at %s" % (d[:1] if d else "?"), si,
                                 {"doc": ndoc, "again": rdoc})
        from .c09 import raw_same

        if not raw_same(doc, o3.value):
            # the same after rounding to doubles, but not the same document: a number was changed by the round trip (an integer
            # beyond 2**53 kept by a live aggregator comes back as the nearest double)
            raise self.violation(obj.name, "fromJson", "fixpoint:number-rounded",
                                 "toJson(fromJson(doc)) spells a number differently from doc: %s vs %s" % (
                                     json.dumps(doc, sort_keys=True)[:300], json.dumps(o3.value, sort_keys=True)[:300]), si)
        # "compares equal to the original's content": == between the reload and a second, independent reload of the
        # same document (a mutable original carries its quantity function, which is not content)
        r2 = call(hg.Factory.fromJson, json.loads(text))
        if r2.ok:
            e = call(lambda: rep == r2.value)
            if e.ok and not bool(e.value):
                raise self.violation(obj.name, "fromJson", "eq-false-on-equal:%s" % wire,
                                     "two reloads of one document do not compare equal (%r)" % (e.value,), si, {"doc": ndoc})
        w.bump("fault_restore")
        return rep

    def _doc_probes(self, w, doc):
        for path, t, f in grammar.walk(doc["type"], doc["data"]):
            if t in ("SparselyBin", "Categorize") and isinstance(f, dict) and not f["bins"] and f["bins:type"] != "Count":
                w.bump("probe_empty_sparse_checkpoint")
            if t == "SparselyBin" and any(k.startswith("-") for k in f["bins"]):
                w.bump("probe_negative_sparse_index")
        if '"nan"' in observe.dumps(doc) or '"inf"' in observe.dumps(doc) or '"-inf"' in observe.dumps(doc):
            w.bump("probe_nonfinite_in_document")

    def apply_special(self, w, st, si):
        op = st["op"]
        if op == "checkpoint":
            if not w.has(st["obj"]):
                return None, set()
            src = w.meta[st["obj"]]
            rep = self._checkpoint(w, st, si, w.heap[st["obj"]], st["wire"], "c", src.get("cover"), src["k"])
            w.put(st["out"], rep, k=src["k"], via="ship:" + st["wire"], mut=False, twin=st["obj"],
                  twin_version=src.get("fills", 0), cover=None if src.get("cover") is None else list(src["cover"]))
            w.meta[st["obj"]]["fills_at_ckpt"] = w.meta[st["obj"]].get("fills", 0)
            return "done", set()
        if op == "underflow":
            if not w.has(st["obj"]):
                return None, set()

            def scaled(x=w.heap[st["obj"]]):
                for f_ in st["fs"]:
                    x = x * f_
                return x

            o = call(scaled)
            if not o.ok:
                return None, set()
            w.bump("probe_underflow_state_checkpointed")
            self._checkpoint(w, st, si, o.value, st["wire"], "u", None, 0, structure_only=True)
            return "done", set()
        if op == "torn":
            import histogrammar as hg

            if not w.has(st["obj"]):
                return None, set()
            obj = w.heap[st["obj"]]
            name = "torn-%d.json" % si
            if st["how"] == "torn":
                w.disk.fault = ("torn", st["frac"])
                o = call(obj.toJsonFile, name)
                if not o.ok:
                    w.disk.fault = None
                    return None, set()
            else:
                o = call(obj.toJsonFile, name)
                if not o.ok:
                    return None, set()
                w.disk.fault = ("short", st["frac"])
            full = json.dumps(obj.toJson())
            r = call(hg.Factory.fromJsonFile, name)
            w.disk.fault = None
            for k in w.disk.fired:
                w.bump("fault_" + k)
            w.disk.fired = []
            if r.ok:
                # a prefix that happens to be the whole text (frac rounding) is not torn
                text = w.disk.durable.get(name, "")
                cut = text if st["how"] == "torn" else text[: int(len(text) * st["frac"])]
                if cut != full:
                    raise self.violation(obj.name, "fromJsonFile", "not-rejected:torn",
                                         "a torn / short file (%d of %d bytes) was loaded as an aggregator" % (len(cut), len(full)), si)
            return "done", set()
        if op == "pair_op":
            if not w.has(st["orig"], st["replica"]):
                return None, set()
            if w.meta[st["replica"]].get("twin_version", 0) != w.meta[st["orig"]].get("fills", 0):
                return None, set()  # the original has been filled since the checkpoint
            a, b = w.heap[st["orig"]], w.heap[st["replica"]]
            what = st["what"]
            other = w.heap.get(st.get("other"))
            if what in ("add_other", "other_add") and other is None:
                return None, set()
            f = specmod.dec_float(st["f"]) if "f" in st else None
            if what == "iadd_then_reload":
                # the replica is a container like any other: something is merged into it in place.  The document it came
                # from has not changed, so loading that text once more must give the state that was written
                if other is None:
                    return None, set()

                import histogrammar as hg

                def merged():
                    text = a.toJsonString()
                    y = hg.Factory.fromJsonString(text) if si % 2 else hg.Factory.fromJson(text)  # a private replica
                    y += other
                    return y

                if call(merged).ok:
                    w.bump("probe_replica_merged_then_reloaded")
                self._checkpoint(w, st, si, a, "jsonstr", "again", w.meta[st["orig"]].get("cover"), w.meta[st["orig"]]["k"])
                return "done", set()

            def do(x):
                if what == "add_other":
                    return x + other
                if what == "other_add":
                    return other + x
                if what == "add_self":
                    return x + x
                if what == "mul":
                    return x * f
                if what == "zero":
                    return x.zero()
                if what == "copy":
                    return x.copy()
                if what == "recheck":
                    return x
                raise ValueError(what)

            oa, ob = call(do, a), call(do, b)
            w.bump("probe_lockstep_ops")
            if oa.ok != ob.ok:
                bad = oa if not oa.ok else ob
                raise self.violation(exc_site(bad.exc)[0], what, "replica-diverged:exception:%s" % type(bad.exc).__name__,
                                     "original and JSON replica disagree on %s: original %s, replica %s" % (
                                         what, oa.describe(), ob.describe()), si)
            if not oa.ok:
                w.bump("probe_both_raise")
                return "done", set()
            da, db = call(observe.observe, oa.value), call(observe.observe, ob.value)
            if da.ok != db.ok:
                bad = da if not da.ok else db
                raise self.violation(exc_site(bad.exc)[0], what, "replica-diverged:exception:%s" % type(bad.exc).__name__,
                                     "toJson after %s: original %s, replica %s" % (what, da.describe(), db.describe()), si)
            if da.ok:
                d = observe.doc_diff(da.value, db.value, tol_for(w.records, si + 8))
                if d is not None:
                    raise self.violation(d[1], what, "replica-diverged:%s" % d[2],
                                         "after %s the original and its JSON replica differ at %s (%s.%s)" % (what, d[0], d[1], d[2]),
                                         si, {"original": da.value, "replica": db.value})
                # results are first-class too: serialise them
                ca = w.meta[st["orig"]].get("cover")
                co = w.meta.get(st.get("other"), {}).get("cover") if what in ("add_other", "other_add") else None
                if ca is None or (what in ("add_other", "other_add") and co is None):
                    cov = None
                elif what in ("add_other", "other_add"):
                    cov = ca + co
                elif what == "add_self":
                    cov = ca + ca
                elif what == "mul":
                    cov = [] if (f != f or f <= 0) else [(i, wt * f) for i, wt in ca]
                elif what == "zero":
                    cov = []
                else:
                    cov = list(ca)
                kk = w.meta[st["orig"]]["k"]
                if what != "recheck":
                    self._checkpoint(w, st, si, ob.value, "json", "r", cov, kk)
                    self._checkpoint(w, st, si, oa.value, "jsonstr", "o", cov, kk)
                else:
                    self._checkpoint(w, st, si, b, "file", "rr", cov, kk)
                if what != "recheck":  # recheck returns the objects themselves: no new handles
                    w.put(st["out"], oa.value, k=kk, via="pair", mut=False, cover=cov)
                    w.put(st["out2"], ob.value, k=kk, via="pair", mut=False, twin=st["out"], cover=cov)
            return "done", set()
        return super().apply_special(w, st, si)

    def run(self, case, w, R):
        R["shape"] = "|".join(specmod.shape_key(s) for s in case["specs"])
        ckpt_filled = 0
        lock = 0
        for si, st in enumerate(case["steps"]):
            o, writes = self.apply(w, st, si)
            op = st["op"]
            if o is None:
                continue
            if o == "done":
                if op == "checkpoint" and w.meta.get(st["obj"], {}).get("fills", 0) >= 2:
                    ckpt_filled += 1
                if op == "pair_op":
                    lock += 1
            else:
                if op == "new" and o.ok:
                    w.meta[st["out"]]["cover"] = []
                if op == "fill":
                    self.lib(o, op, si)
                    w.meta[st["obj"]]["fills"] = w.meta[st["obj"]].get("fills", 0) + 1
                    wt = specmod.dec_float(st["w"])
                    if wt > 0 and any(isinstance(v, int) and not isinstance(v, bool) and abs(v) > 2 ** 53 for v in w.records[st["rec"]].values()):
                        # an integer beyond 2**53: sums and means are no longer exact, the reference document is not consulted
                        w.meta[st["obj"]]["cover"] = None
                        w.bump("probe_integer_beyond_double_precision")
                    if w.meta[st["obj"]].get("cover") is not None and wt > 0:
                        w.meta[st["obj"]]["cover"].append((st["rec"], wt))
                elif not o.ok:
                    # +, *, copy on *mutable* trees and their results must work (C04 lists them as state producers)
                    w.bump("probe_op_failed_" + op)
                elif op in ("add", "mul", "copy"):
                    src = st.get("l", st.get("obj"))
                    f = w.meta.get(src, {}).get("fills", 0) + (w.meta.get(st.get("r"), {}).get("fills", 0) if op == "add" else 0)
                    w.meta[st["out"]]["fills"] = f
                    ca = w.meta.get(src, {}).get("cover")
                    if op == "add":
                        cb = w.meta.get(st["r"], {}).get("cover")
                        w.meta[st["out"]]["cover"] = None if ca is None or cb is None else ca + cb
                    elif op == "mul":
                        ff = specmod.dec_float(st["f"])
                        w.meta[st["out"]]["cover"] = None if ca is None else ([] if (ff != ff or ff <= 0) else [(i, wt * ff) for i, wt in ca])
                    else:
                        w.meta[st["out"]]["cover"] = None if ca is None else list(ca)
            w.record_step(st)
        R["nontrivial"] = ckpt_filled >= 1 and lock >= 2
        R["units"] = lock + ckpt_filled


SCENARIO = C04()
