"""C05 -- bookkeeping invariants (scenario `pool-history`).

No reference model: after every step of a seeded operation history the
conservation equations of DESIGN.md B.2 are evaluated on every live object, and
the root's entries is compared with a scalar shadow of the weight it was given.
Both the dyadic and the awkward regime (0.1, 1/3, 1e6 offsets, nextafter probes
around every edge) are used: the equations are self-consistency of one object,
so rounding of index arithmetic cannot produce a false alarm.
"""
import math

from .. import grammar, observe, spec as specmod
from .pool import PoolScenario, snapshot_docs

EPS = 2.0 ** -52


def close(a, b, n):
    if a == b:
        return True
    if math.isnan(a) or math.isnan(b) or math.isinf(a) or math.isinf(b):
        return (math.isnan(a) and math.isnan(b)) or a == b
    return abs(a - b) <= 64 * EPS * max(8, n) * max(1.0, abs(a), abs(b))


def bookkeeping(doc, n):
    """-> None or (path, primitive, equation, message)"""
    for path, t, f in grammar.walk(doc["type"], doc["data"], ("data",)):
        e = grammar.entries_of(t, f)
        if e < 0 or math.isnan(e):
            return path, t, "nonneg", "entries %r is negative or NaN" % e
        if t == "Bag":
            s = sum(grammar.num(v["w"]) for v in f["values"])
            if not close(e, s, n):
                return path, t, "bag-sum", "entries %r != sum of value weights %r" % (e, s)
        elif t == "Bin":
            vt = f["values:type"]
            s = sum(grammar.entries_of(vt, v) for v in f["values"])
            s += sum(grammar.entries_of(f[k + ":type"], f[k]) for k in ("underflow", "overflow", "nanflow"))
            if not close(e, s, n):
                return path, t, "bins-sum", "entries %r != bins + flows %r" % (e, s)
        elif t == "SparselyBin":
            s = sum(grammar.entries_of(f["bins:type"], v) for v in f["bins"].values())
            s += grammar.entries_of(f["nanflow:type"], f["nanflow"])
            if not close(e, s, n):
                return path, t, "bins-sum", "entries %r != bins + nanflow %r" % (e, s)
        elif t in ("CentrallyBin", "IrregularlyBin"):
            s = sum(grammar.entries_of(f["bins:type"], b["data"]) for b in f["bins"])
            s += grammar.entries_of(f["nanflow:type"], f["nanflow"])
            if not close(e, s, n):
                return path, t, "bins-sum", "entries %r != bins + nanflow %r" % (e, s)
        elif t == "Categorize":
            s = sum(grammar.entries_of(f["bins:type"], v) for v in f["bins"].values())
            if not close(e, s, n):
                return path, t, "bins-sum", "entries %r != sum of categories %r" % (e, s)
        elif t == "Stack":
            lv = [grammar.entries_of(f["bins:type"], b["data"]) for b in f["bins"]]
            th = [grammar.num(b["atleast"]) for b in f["bins"]]
            if lv:
                s = lv[0] + grammar.entries_of(f["nanflow:type"], f["nanflow"])
                if not close(e, s, n):
                    return path, t, "stack-level0", "entries %r != level0 + nanflow %r" % (e, s)
            if all(a < b for a, b in zip(th[:-1], th[1:])):
                for a, b in zip(lv[:-1], lv[1:]):
                    if b > a and not close(a, b, n):
                        return path, t, "stack-monotone", "stack levels increase: %r then %r" % (a, b)
        elif t == "Fraction":
            d = grammar.entries_of(f["sub:type"], f["denominator"])
            if not close(e, d, n):
                return path, t, "denominator", "entries %r != denominator entries %r" % (e, d)
        elif t in ("Label", "Index"):
            kids = f["data"].values() if t == "Label" else f["data"]
            for c in kids:
                ce = grammar.entries_of(f["sub:type"], c)
                if not close(e, ce, n):
                    return path, t, "child-entries", "entries %r != child entries %r" % (e, ce)
        elif t in ("UntypedLabel", "Branch"):
            kids = f["data"].values() if t == "UntypedLabel" else f["data"]
            for c in kids:
                ce = grammar.entries_of(c["type"], c["data"])
                if not close(e, ce, n):
                    return path, t, "child-entries", "entries %r != child entries %r" % (e, ce)
    return None


class C05(PoolScenario):
    prop = "C05"
    level = "exploration"
    profiles = ["dyadic", "awkward"]
    budgets = {"quick": 10000, "thorough": 200000}
    wall_caps = {"quick": 110, "thorough": 1500}
    ops = {"new": 1, "fill": 10, "fillnumpy": 6, "add": 3, "iadd": 2, "mul": 2, "copy": 1, "zero": 0.5, "ship": 2, "iadd_many": 0.25}
    odd_row_weights = 0.08
    inf_row_weights = 0.03
    fill_reloaded_too = True
    spec_opts = {"count_same_transform": 0.1}
    rule = ("one run = one operation history over a pool of aggregators owned by three tasks (fill, fill.numpy with "
            "seeded batches / weight forms / containers, +, +=, *, copy, JSON / file / pickle round trips), in the "
            "dyadic or the awkward configuration regime (0.1, 1/3, 1e6 offsets; probes 1-3 ulps around every edge). "
            "Non-trivial: >= 1 binning node received >= 3 fills and >= 1 merge or scaling happened. Distinct: hash of "
            "(tree shapes, schedule shape).")
    assumptions = ["trees contain no Count with a non-identity transform", "no equation for Select.cut and "
                   "Fraction.numerator", "all weights and factors are dyadic; equations are checked to 64*eps*n relative"]
    expected_faults = ["batch_split"]
    expected_probes = ["edge_probe_fill", "nan_or_inf_fill"]

    def gen_workload(self, rng, tier, profile):
        self.regimes = [profile]
        return super().gen_workload(rng, tier, profile)

    def run(self, case, w, R):
        R["shape"] = "|".join(specmod.shape_key(s) for s in case["specs"])
        nfill = 0
        nalg = 0
        for si, st in enumerate(case["steps"]):
            o, writes = self.apply(w, st, si)
            op = st["op"]
            if o is not None:
                if op in ("fill", "fillnumpy") and not o.ok and not w.meta.get(st["obj"], {}).get("mut", True):
                    # a fill of something that holds bins adopted from a reload: "immutable container" is a legitimate answer, and
                    # the target may be half-filled now (outside every guarantee) - it leaves the pool; everybody else stays watched
                    w.bump("probe_fill_of_reload_derived_refused")
                    w.heap.pop(st["obj"], None)
                    w.meta.pop(st["obj"], None)
                elif op in ("fill", "fillnumpy"):
                    self.lib(o, op, si)
                    nfill += 1
                    self._probe(w, st)
                    if w.info.get("box_changed"):
                        pass  # input mutation is C03's business
                elif not o.ok:
                    w.bump("probe_op_failed_" + op)
                    # a failed += may leave its target half-merged: that is C10 / C07's business, drop the object
                    if op == "iadd":
                        w.heap.pop(st["l"], None)
                        w.meta.pop(st["l"], None)
                else:
                    if op in ("add", "iadd", "mul"):
                        nalg += 1
                self._shadow(w, st, o)
            docs = snapshot_docs(w)
            for h in sorted(docs):
                if docs[h]["type"] == "?":
                    continue
                b = bookkeeping(docs[h], si + 8)
                if b is not None:
                    raise self.violation(b[1], self._blame_op(st, h), "invariant:%s" % b[2],
                                         "after step %d (%s) object %d at %s: %s" % (si, op, h, b[0], b[3]), si,
                                         {"doc": docs[h]})
                sh = w.meta[h].get("shadow")
                if sh is not None:
                    e = grammar.entries_of(docs[h]["type"], docs[h]["data"])
                    if not close(e, sh, si + 8):
                        raise self.violation(docs[h]["type"], self._blame_op(st, h), "invariant:total-weight",
                                             "after step %d (%s) object %d has entries %r but was given total weight %r" % (
                                                 si, op, h, e, sh), si, {"doc": docs[h]})
            w.record_step(st, {h: observe.obs_hash(d) for h, d in docs.items()})
        R["nontrivial"] = nfill >= 3 and nalg >= 1
        R["units"] = len(case["steps"])

    def _blame_op(self, st, h):
        return st["op"]

    def _probe(self, w, st):
        recs = [w.records[st["rec"]]] if st["op"] == "fill" else [w.records[i] for i in st["rows"]]
        for r in recs:
            for f in ("x", "y"):
                v = r[f]
                if v != v or abs(v) == math.inf:
                    w.bump("probe_nan_or_inf_fill")
        w.bump("probe_edge_probe_fill", len(recs))

    def _shadow(self, w, st, o):
        op = st["op"]
        m = w.meta
        if op == "new" and o.ok:
            m[st["out"]]["shadow"] = 0.0
        elif op == "fill" and o.ok:
            wt = specmod.dec_float(st["w"])
            if wt > 0:
                m[st["obj"]]["shadow"] = m[st["obj"]].get("shadow", 0.0) + wt
        elif op == "fillnumpy" and o.ok:
            n = len(st["rows"])
            if st["weights"] == "one":
                tot = float(n)
            elif st["weights"] == "array":
                tot = float(sum(x for x in (float(v) for v in st["row_weights"]) if x > 0))  # weights <= 0 and NaN are ignored, as in fill
            else:
                tot = float(st["weights"]) * n
            m[st["obj"]]["shadow"] = m[st["obj"]].get("shadow", 0.0) + tot
        elif op == "add" and o.ok:
            a, b = m[st["l"]].get("shadow"), m[st["r"]].get("shadow")
            m[st["out"]]["shadow"] = None if a is None or b is None else a + b
        elif op == "iadd" and o.ok:
            a, b = m[st["l"]].get("shadow"), m[st["r"]].get("shadow")
            m[st["l"]]["shadow"] = None if a is None or b is None else a + b
        elif op == "mul" and o.ok:
            f = specmod.dec_float(st["f"])
            a = m[st["obj"]].get("shadow")
            m[st["out"]]["shadow"] = None if a is None else (a * f if (f == f and f > 0) else 0.0)
        elif op == "zero" and o.ok:
            m[st["out"]]["shadow"] = 0.0
        elif op in ("copy", "ship") and o.ok:
            m[st["out"]]["shadow"] = m[st["obj"]].get("shadow")


SCENARIO = C05()
