"""C17 -- user-function wrappers preserve behaviour (scenario `shared-memo`).

(a) `wrappers`: every order of applying named / cached / serializable to a
function or a string gives pairwise equal wrappers with equal hash and name,
CachedFcn iff cached was applied, and a second name raises ValueError.
(b) `shared-memo`: one cached wrapper is shared by several nodes of one tree and
by two trees owned by different tasks; the scheduler interleaves fills so that
the wrapper sees runs of identical objects, equal-but-distinct objects,
different objects, scalars-in-records and arrays; a twin system uses the plain
function.  (c) `string-twin`: twin trees built from a string expression and
from the equivalent Python function are filled with the same stream of dict
records, attribute records and bare scalars, in interleavings that make the
first call of the string wrapper a dict, an object or a scalar.
Oracle: twin comparison of observations after every step, exact.
"""
import copy
import itertools

from .. import gate, observe, spec as specmod
from ..kernel import HarnessError, call, exc_site, make_box
from .base import Scenario, shrink_records, shrink_steps

# --------------------------------------------------------------------------- expression grammar

ARITH = ["+", "-", "*"]
CMP = ["<", "<=", ">", ">=", "==", "!="]


def gen_expr(rng, fields, boolean=False, depth=2, vector=False):
    if boolean:
        if depth > 0 and not vector and rng.chance(0.35):
            return [rng.pick(["and", "or"]), gen_expr(rng, fields, True, depth - 1), gen_expr(rng, fields, True, depth - 1)]
        if depth > 0 and not vector and rng.chance(0.15):
            return ["not", gen_expr(rng, fields, True, depth - 1)]
        return [rng.pick(CMP), gen_expr(rng, fields, False, depth - 1, vector), gen_expr(rng, fields, False, depth - 1, vector)]
    if depth <= 0 or rng.chance(0.3):
        if rng.chance(0.7):
            return ["var", rng.pick(fields)]
        return ["const", rng.pick([0.5, 1.0, 2.0, -1.0, 0.25, 3.0])]
    if rng.chance(0.15):
        return ["neg", gen_expr(rng, fields, False, depth - 1, vector)]
    if rng.chance(0.1):
        # a Python builtin (abs works on numbers and arrays alike)
        return ["abs", gen_expr(rng, fields, False, depth - 1, vector)]
    if rng.chance(0.08):
        # a nested scope inside the expression (a generator expression reads the record's fields from its own frame)
        return ["gsum", gen_expr(rng, fields, False, depth - 1, vector)]
    if rng.chance(0.12):
        return ["/c", gen_expr(rng, fields, False, depth - 1, vector), rng.pick([2.0, 4.0, 0.5])]
    return [rng.pick(ARITH), gen_expr(rng, fields, False, depth - 1, vector), gen_expr(rng, fields, False, depth - 1, vector)]


def expr_rename(a, ren):
    if a[0] == "var":
        return ["var", ren.get(a[1], a[1])]
    return [a[0]] + [expr_rename(x, ren) if isinstance(x, list) else x for x in a[1:]]


AWKWARD_FIELDS = ["e", "pi", "tau", "gamma", "inf", "nan", "exp", "log", "pow", "np", "math", "numpy", "copy", "pickle", "types", "histogrammar", "named", "datum"]


def expr_vars(a):
    if a[0] == "var":
        return {a[1]}
    out = set()
    for x in a[1:]:
        if isinstance(x, list):
            out |= expr_vars(x)
    return out


def expr_source(a):
    k = a[0]
    if k == "var":
        return a[1]
    if k == "const":
        return repr(a[1])
    if k == "neg":
        return "(-%s)" % expr_source(a[1])
    if k == "abs":
        return "abs(%s)" % expr_source(a[1])
    if k == "gsum":
        return "sum(%s * k_ for k_ in (1.0, 2.0))" % expr_source(a[1])
    if k == "not":
        return "(not %s)" % expr_source(a[1])
    if k == "/c":
        return "(%s / %r)" % (expr_source(a[1]), a[2])
    return "(%s %s %s)" % (expr_source(a[1]), k, expr_source(a[2]))


def _get(d, name):
    if isinstance(d, dict):
        return d[name]
    if hasattr(d, "dtype") and getattr(d.dtype, "names", None):
        return d[name]
    if hasattr(d, "columns"):
        return d[name].values
    if hasattr(d, "__dict__") and name in d.__dict__:
        return getattr(d, name)
    return d  # a bare scalar is the one and only variable


def _ev(a, d):
    k = a[0]
    if k == "var":
        return _get(d, a[1])
    if k == "const":
        return a[1]
    if k == "neg":
        return -_ev(a[1], d)
    if k == "abs":
        return abs(_ev(a[1], d))
    if k == "gsum":
        v_ = _ev(a[1], d)
        return 0 + v_ * 1.0 + v_ * 2.0
    if k == "not":
        return not _ev(a[1], d)
    if k == "/c":
        return _ev(a[1], d) / a[2]
    l = _ev(a[1], d)
    if k == "and":
        return l and _ev(a[2], d)
    if k == "or":
        return l or _ev(a[2], d)
    r = _ev(a[2], d)
    if k == "+":
        return l + r
    if k == "-":
        return l - r
    if k == "*":
        return l * r
    if k == "<":
        return l < r
    if k == "<=":
        return l <= r
    if k == ">":
        return l > r
    if k == ">=":
        return l >= r
    if k == "==":
        return l == r
    if k == "!=":
        return l != r
    raise HarnessError("bad expr %r" % (a,))


_FUNCS = {}


def expr_function(a):
    """the equivalent Python function (a real FunctionType, as the library requires)"""
    key = repr(a)
    if key not in _FUNCS:
        ns = {"_ev": _ev, "_ast": a}
        _FUNCS[key] = eval("lambda d: _ev(_ast, d)", ns)
    return _FUNCS[key]


def _flipzero(v):
    """0.0 <-> -0.0: equal under ==, but not the same argument (copysign, 1/x, atan2 tell them apart)"""
    import math

    if isinstance(v, float) and v == 0.0:
        return -0.0 if math.copysign(1.0, v) > 0 else 0.0
    return v


def _retype(v):
    if v is True:
        return 1.0
    if v is False:
        return 0.0
    if isinstance(v, float) and v == 1.0:
        return True
    if isinstance(v, float) and v == 0.0:
        return False
    if isinstance(v, float) and v == v and abs(v) < 1e6 and v == int(v):
        return int(v)
    return v


class Rec:
    def __init__(self, d):
        self.__dict__.update(d)


def as_datum(rec, form, var):
    if form == "dict":
        return dict(rec)
    if form == "obj":
        return Rec(rec)
    return rec[var]


class C17(Scenario):
    prop = "C17"
    level = "exploration"
    profiles = ["wrappers", "shared-memo", "shared-memo", "string-twin", "string-twin"]
    budgets = {"quick": 20000, "thorough": 400000}
    wall_caps = {"quick": 110, "thorough": 1500}
    rule = ("profile `wrappers`: all orders of named / cached / serializable (each subset, each permutation) on a "
            "function and on a string, or a seeded sequence of direct calls of one wrapper (cached, named, pickled, copied, plain) "
            "with positional / defaulted / keyword arguments, equal and different ones interleaved, compared call by call with "
            "the bare function; `shared-memo`: one cached wrapper shared by several nodes of two trees, a seeded "
            "interleaving of row fills (identical record object repeated, equal copy, different record) and vector "
            "batches (dict / frame / recarray; repeated, equal copy, different) compared after every step with a twin "
            "system that uses the plain function; `string-twin`: a seeded expression over record fields given as a "
            "string to one tree and as a Python function to its twin, filled with dict records, attribute records and "
            "bare scalars in seeded order. Non-trivial: >= 4 calls of which >= 1 repeats the previous argument and >= 1 "
            "changes it (memo), or >= 2 record representations (string). Distinct: hash of the case.")
    assumptions = ["the twin (plain function) defines what the wrapped function must return",
                   "expressions use + - * /const comparisons and/or/not over record fields (also fields named like math.* / numpy / module globals)",
                   "bare scalars are only used with single-variable expressions"]
    expected_faults = ["memo_interleave"]
    expected_probes = ["memo_repeat_identical", "memo_repeat_equal_copy", "memo_change", "memo_array_batch", "memo_equal_value_other_type", "memo_function_fault", "string_first_scalar",
                       "string_first_object", "string_first_dict", "wrapper_orders", "wrapper_travelled", "memo_mutated_in_place", "memo_batch_mutated_in_place", "memo_signed_zero", "string_field_named_like_builtin", "memo_fields_reordered",
                       "call_repeated", "call_same_datum_other_options", "call_keyword_arguments", "call_nested_result"]

    # ------------------------------------------------------------------ generation
    def generate(self, rng, tier, profile):
        if profile == "wrappers":
            c = rng.fork("calls")
            if c.chance(0.8):
                return self.gen_calls(c)
            return {"kind": "wrappers", "steps": [{"op": "orders", "base": b} for b in ("function", "string", "def")], "records": []}
        d = rng.fork("data")
        s = rng.fork("schedule")
        t = rng.fork("tree")
        if profile == "shared-memo":
            def q(i, f):
                return {"f": f, "kind": "shared", "id": i}

            def tree(k):
                kids = [{"p": "Sum", "q": q(0, "x")}, {"p": "Bin", "num": 4, "low": -2.0, "high": 2.0, "q": q(0, "x"), "value": {"p": "Average", "q": q(1, "y")},
                                                       "underflow": None, "overflow": None, "nanflow": None},
                        {"p": "Select", "q": q(2, "b"), "cut": {"p": "Deviate", "q": q(0, "x")}}, {"p": "Minimize", "q": q(1, "y")},
                        {"p": "Categorize", "q": q(3, "s"), "value": {"p": "Sum", "q": q(1, "y")}},
                        {"p": "Categorize", "q": q(4, "c"), "value": None}, {"p": "Bag", "q": q(0, "x"), "range": "N"},
                        {"p": "Sum", "q": dict(q(5, "x"), fn="sign")}, {"p": "Sum", "q": dict(q(5, "x"), fn="sign")},
                        # a cached weight transform shared by the Counts of a Bin (fill.numpy hands every bin its own weights)
                        {"p": "Bin", "num": 4, "low": -2.0, "high": 2.0, "q": q(0, "x"), "value": {"p": "Count", "transform": "sq", "tq": {"id": 7}},
                         "underflow": {"p": "Count", "transform": "sq", "tq": {"id": 7}}, "overflow": None, "nanflow": None}]
                t.shuffle(kids)
                return {"p": "Branch", "values": kids[: t.randint(2, 6)]}

            specs = [tree(0), tree(1)]
            crit = specmod.critical_values(specs[0])
            recs = [specmod.gen_record(d, crit, {"no_none": True}) for _ in range(d.randint(3, 10))]
            if d.chance(0.4):
                # a record for which the wrapped functions fail (a pure failure: decided by the argument alone)
                recs[d.randrange(len(recs))][d.pick(["x", "y"])] = gate.POISON
            steps = []
            last = None
            for si in range(s.randint(4, 30)):
                tr = s.randrange(2)
                if s.chance(0.7):
                    mode = s.pick(["same", "copy", "retype", "new", "new", "mutate", "mutate", "flipzero", "reorder"])
                    rec = s.randrange(len(recs)) if (mode == "new" or last is None or last[0] != "row") else last[1]
                    steps.append({"op": "fill", "tree": tr, "rec": rec, "how": mode if (last and last[0] == "row") else "new", "w": s.pick([1.0, 1.0, 0.5, 2.0]),
                                  "actor": "T%d" % tr, "rec2": s.randrange(len(recs)), "fld": s.pick(["x", "y", "x", "s"])})
                    last = ("row", rec)
                else:
                    mode = s.pick(["same", "copy", "new", "mutate"])
                    if mode != "new" and last and last[0] == "np":
                        rows, box = last[1], last[2]
                    else:
                        rows, box, mode = [s.randrange(len(recs)) for _ in range(s.randint(1, 5))], s.pick(["dict", "frame", "rec"]), "new"
                    steps.append({"op": "fillnumpy", "tree": tr, "rows": rows, "box": box, "how": mode, "actor": "T%d" % tr,
                                  "rec2": s.randrange(len(recs)), "fld": s.pick(["x", "y"])})
                    last = ("np", rows, box)
            return {"kind": "shared-memo", "specs": specs, "records": [specmod.enc_record(r) for r in recs], "steps": steps}
        # string-twin
        single = s.chance(0.5)
        fields = [t.pick(["x", "y"])] if single else ["x", "y"]
        num = gen_expr(t, fields, False, 2)
        while not expr_vars(num):
            num = gen_expr(t, fields, False, 2)
        if single:
            fields = sorted(expr_vars(num))[:1]
            num = gen_expr(t, fields, False, 2)
            while expr_vars(num) != set(fields):
                num = gen_expr(t, fields, False, 2)
        boo = gen_expr(t, fields, True, 2)
        while not expr_vars(boo):
            boo = gen_expr(t, fields, True, 2)
        shape = t.pick(["sum", "bin", "select", "branch"])
        def qe(a):
            return {"f": "x", "kind": "expr", "ast": a}
        if shape == "sum":
            sp = {"p": "Sum", "q": qe(num)}
        elif shape == "bin":
            sp = {"p": "Bin", "num": 4, "low": -4.0, "high": 4.0, "q": qe(num), "value": {"p": "Deviate", "q": qe(num)}, "underflow": None,
                  "overflow": None, "nanflow": None}
        elif shape == "select":
            sp = {"p": "Select", "q": qe(boo), "cut": {"p": "Sum", "q": qe(num)}}
        else:
            sp = {"p": "Branch", "values": [{"p": "Average", "q": qe(num)}, {"p": "Select", "q": qe(boo), "cut": None}, {"p": "Maximize", "q": qe(num)}]}
        recs = [specmod.gen_record(d, {"x": [], "y": []}, {"no_none": True, "p_special": 0.1}) for _ in range(d.randint(3, 10))]
        allv = expr_vars(num) | (expr_vars(boo) if shape in ("select", "branch") else set())
        forms = ["dict", "obj"] + (["scalar"] if len(allv) == 1 else [])
        steps = []
        for si in range(s.randint(3, 20)):
            steps.append({"op": "fill", "rec": s.randrange(len(recs)), "form": s.pick(forms), "w": s.pick([1.0, 0.5, 2.0])})
        if s.chance(0.3) and all(op not in repr(sp) for op in ("'and'", "'or'", "'not'")):
            steps.append({"op": "fillnumpy", "rows": [s.randrange(len(recs)) for _ in range(4)], "box": s.pick(["dict", "frame", "rec"])})
        rename = None
        # (not with bare scalars: there the one name the expression does not know *is* the datum, so a name math.* also
        # has cannot stand for it)
        if not any(st_.get("form") == "scalar" for st_ in steps) and t.chance(0.35):
            # field names that are also names of math.* / numpy / of the module that evaluates the expression: the record wins
            names = t.sample(AWKWARD_FIELDS, 2)
            rename = {"x": names[0], "y": names[1]}
            for _, nd in specmod.walk(sp):
                if "q" in nd and nd["q"].get("kind") == "expr":
                    nd["q"]["ast"] = expr_rename(nd["q"]["ast"], rename)
            allv = set(rename.get(v, v) for v in allv)
        return {"kind": "string-twin", "spec": sp, "var": sorted(allv)[0], "records": [specmod.enc_record(r) for r in recs], "steps": steps,
                "rename": rename}

    def gen_calls(self, c):
        """direct calls of one wrapper: positional, defaulted and keyword arguments, equal and different ones interleaved"""
        data = [1.5, -2.0, 0.0, 3, 2.5, True]
        ks = [None, None, 1.0, 2.0, 2, -1.0]
        ms = [None, None, None, 0.5, 1]
        steps = []
        prev = None
        for _ in range(c.randint(4, 14)):
            if prev is not None and c.chance(0.25):
                st = dict(prev)  # the same call again
            elif prev is not None and c.chance(0.5):
                # the same datum, another optional argument (or the same one spelt differently)
                st = dict(prev)
                what = c.pick(["k", "m", "kmode"])
                if what == "k":
                    st["k"] = c.pick(ks)
                elif what == "m":
                    st["m"] = c.pick(ms)
                else:
                    st["kmode"] = "kw" if st["kmode"] == "pos" else "pos"
            else:
                st = {"op": "call", "v": c.randrange(len(data)), "k": c.pick(ks), "kmode": c.pick(["pos", "kw"]), "m": c.pick(ms)}
            steps.append(st)
            prev = st
        return {"kind": "calls", "wrap": c.pick(["cached", "cached", "named-cached", "plain", "cached-pickled", "cached-copied"]), "data": data,
                # what the function returns: a number, or a nested structure that the caller then modifies in place, at depth
                "returns": c.pick(["number", "number", "nested"]), "steps": steps, "records": []}

    # ------------------------------------------------------------------ execution
    def run_calls(self, case, w, R):
        import copy as _copy
        import pickle

        from histogrammar.util import cached, named, serializable

        src = "lambda d, k=1.0, *, m=0.0: d * k + m"
        if case.get("returns") == "nested":
            src = 'lambda d, k=1.0, *, m=0.0: {"v": [d * k + m, [d]], "w": (d, [k])}'
            w.bump("probe_call_nested_result")
        raw = eval(src, {})
        twin = eval(src, {})
        wrap = case["wrap"]

        def make():
            f = serializable(raw) if wrap == "plain" else cached(raw)
            if wrap == "named-cached":
                f = named("nm", f)
            if wrap == "cached-pickled":
                f = pickle.loads(pickle.dumps(f))
            if wrap == "cached-copied":
                f = _copy.deepcopy(f)
            return f

        o = call(make)
        if not o.ok:
            raise self.violation("util", "wrap", "exception:%s" % type(o.exc).__name__, "building the %s wrapper raised %s" % (wrap, o.describe()), 0)
        f = o.value
        prev = None
        nrep = nchg = 0
        for si, st in enumerate(case["steps"]):
            d = case["data"][st["v"]]
            a, kw = [d], {}
            if st["k"] is not None:
                if st["kmode"] == "pos":
                    a.append(st["k"])
                else:
                    kw["k"] = st["k"]
            if st["m"] is not None:
                kw["m"] = st["m"]
            want = twin(*a, **kw)
            got = call(f, *a, **kw)
            if prev is not None and prev["v"] == st["v"]:
                if (prev["k"], prev["m"]) == (st["k"], st["m"]):
                    nrep += 1
                    w.bump("probe_call_repeated")
                else:
                    nchg += 1
                    w.bump("probe_call_same_datum_other_options")
                    w.bump("fault_memo_interleave")
            if kw:
                w.bump("probe_call_keyword_arguments")
            if not got.ok:
                raise self.violation("CachedFcn" if wrap != "plain" else "UserFcn", "call", "exception:%s" % type(got.exc).__name__,
                                     "call %r %r of the %s wrapper raised %s" % (a, kw, wrap, got.describe()), si)
            if type(got.value) is not type(want) or repr(got.value) != repr(want):
                raise self.violation("CachedFcn" if wrap != "plain" else "UserFcn", "call", "content:return-value",
                                     "call %r %r of the %s wrapper returned %r, the function returns %r" % (a, kw, wrap, got.value, want), si)
            if case.get("returns") == "nested":
                # the caller owns what it was handed, all of it
                got.value["v"][1].append("caller")
                got.value["v"][0] = None
                got.value["w"][1].clear()
            prev = st
            w.record_step(st)
        R["nontrivial"] = len(case["steps"]) >= 4 and nrep >= 1 and nchg >= 1
        R["shape"] = observe.obs_hash({"wrap": wrap, "steps": [[s_["v"], s_["k"], s_["kmode"], s_["m"]] for s_ in case["steps"]]})
        R["units"] = len(case["steps"])

    def run(self, case, w, R):
        kind = case["kind"]
        R["shape"] = kind
        if kind == "wrappers":
            return self.run_wrappers(case, w, R)
        if kind == "calls":
            return self.run_calls(case, w, R)
        if kind == "shared-memo":
            return self.run_memo(case, w, R)
        return self.run_string(case, w, R)

    def run_wrappers(self, case, w, R):
        from histogrammar.util import CachedFcn, UserFcn, cached, named, serializable

        units = 0
        for si, st in enumerate(case["steps"]):
            base = (lambda: gate.make_lambda(7, "x")) if st["base"] == "function" else (lambda: "x + 1")
            ops = {"named": lambda f: named("nm", f), "cached": cached, "serializable": serializable}
            for r in range(0, 4):
                for subset in itertools.combinations(sorted(ops), r):
                    results = []
                    for perm in itertools.permutations(subset):
                        b = base()
                        if st["base"] == "function":
                            b = gate.make_lambda(7, "x")
                        elif st["base"] == "def":
                            b = gate.make_def(7, "x", "myquantity")

                        stages = []

                        def apply():
                            f = b
                            for name in perm:
                                if isinstance(f, UserFcn):
                                    stages.append((name, f, f.name, type(f)))
                                f = ops[name](f)
                            if not isinstance(f, UserFcn):
                                f = serializable(f)
                            return f

                        o = call(apply)
                        if not o.ok:
                            raise self.violation("util", "wrap", "exception:%s" % type(o.exc).__name__,
                                                 "applying %s to a %s raised %s" % ("/".join(perm) or "serializable", st["base"], o.describe()), si)
                        for opname, inner, nm0, ty0 in stages:
                            # wrapping is pure: the wrapper handed in keeps its name and kind (another aggregator may hold it)
                            if inner.name != nm0 or type(inner) is not ty0:
                                raise self.violation("util", "wrap", "argument-changed:%s" % opname,
                                                     "%s() changed the wrapper it was given: name %r -> %r, type %s -> %s (order %s)" % (
                                                         opname, nm0, inner.name, ty0.__name__, type(inner).__name__, "/".join(perm)), si)
                        results.append((perm, o.value))
                        units += 1
                    for perm, f in results:
                        want_cached = "cached" in subset
                        if isinstance(f, CachedFcn) != want_cached:
                            raise self.violation("util", "wrap", "cached-lost" if want_cached else "cached-spurious",
                                                 "order %s gives %s" % ("/".join(perm), type(f).__name__), si)
                        want_name = "nm" if "named" in subset else {"function": None, "string": "x + 1", "def": "myquantity"}[st["base"]]
                        if f.name != want_name:
                            raise self.violation("util", "wrap", "name-lost", "order %s gives name %r, expected %r" % ("/".join(perm), f.name, want_name), si)
                    for (p1, f1), (p2, f2) in itertools.combinations(results, 2):
                        e = call(lambda: (f1 == f2, f2 == f1, hash(f1) == hash(f2)))
                        if not e.ok or e.value != (True, True, True):
                            raise self.violation("util", "wrap", "order-dependent",
                                                 "orders %s and %s give wrappers that differ (==, mirrored ==, same hash: %s)" % (
                                                     "/".join(p1), "/".join(p2), e.value if e.ok else e.describe()), si)
                    if "named" in subset:
                        import pickle

                        import histogrammar as hg

                        for perm, f in results:
                            # the wrapper itself, and the same wrapper after it has travelled (pickled alone, twice, inside
                            # an aggregator, copied with its aggregator): a name once given stays given
                            routes = [("fresh", lambda f=f: f), ("pickled", lambda f=f: pickle.loads(pickle.dumps(f))),
                                      ("pickled-twice", lambda f=f: pickle.loads(pickle.dumps(pickle.loads(pickle.dumps(f))))),
                                      ("in-pickled-aggregator", lambda f=f: pickle.loads(pickle.dumps(hg.Sum(f))).quantity),
                                      ("in-copied-aggregator", lambda f=f: hg.Sum(f).copy().quantity)]
                            for route, get in routes:
                                g = call(get)
                                if not g.ok:
                                    continue  # pickling is C11's business
                                if route != "fresh":
                                    w.bump("probe_wrapper_travelled")
                                    if g.value.name != f.name or isinstance(g.value, CachedFcn) != isinstance(f, CachedFcn):
                                        raise self.violation("util", "wrap", "changed-in-transit:%s" % route,
                                                             "wrapper %s (%s) arrives as %r" % ("/".join(perm), route, g.value), si)
                                for again in ("named", "named-cached", "named-serializable"):
                                    def rename(x=g.value, again=again):
                                        if again == "named-cached":
                                            x = cached(x)
                                        elif again == "named-serializable":
                                            x = serializable(x)
                                        return named("other", x)

                                    o = call(rename)
                                    if o.ok or not isinstance(o.exc, ValueError):
                                        raise self.violation("util", "wrap", "second-name-accepted" + ("" if route == "fresh" else ":" + route),
                                                             "%s on an already named wrapper (%s, %s) %s" % (
                                                                 again, "/".join(perm), route, "returned normally" if o.ok else o.describe()), si)
            w.bump("probe_wrapper_orders")
            w.record_step(st)
        R["nontrivial"] = True
        R["shape"] = "wrappers"
        R["units"] = units

    def run_memo(self, case, w, R):
        qreg = {}
        trees, twins = [], []
        for k, sp in enumerate(case["specs"]):
            plain = copy.deepcopy(sp)
            for _, s in specmod.walk(plain):
                if "q" in s and s["q"]["kind"] == "shared":
                    s["q"]["mode"] = "plain"
                if s.get("tq"):
                    s["tq"]["mode"] = "plain"
            a = call(specmod.build, sp, None, None, qreg)
            b = call(specmod.build, plain, None, None, qreg)
            for o in (a, b):
                if not o.ok:
                    raise self.violation(exc_site(o.exc)[0], "construct", "exception:%s" % type(o.exc).__name__, o.describe(), 0)
            trees.append(a.value)
            twins.append(b.value)
            w.put(k, a.value)
        calls = rep = chg = 0
        last_row = None
        last_box = None
        for si, st in enumerate(case["steps"]):
            tr = st["tree"]
            if tr >= len(trees):
                continue
            if st["op"] == "fill":
                if st["rec"] >= len(w.records):
                    continue
                base = w.records[st["rec"]]
                how = st.get("how", "new")
                if how == "same" and last_row is not None and last_row[0] == st["rec"]:
                    datum = last_row[1]
                    w.bump("probe_memo_repeat_identical")
                    rep += 1
                elif how == "copy" and last_row is not None and last_row[0] == st["rec"]:
                    datum = dict(base)
                    w.bump("probe_memo_repeat_equal_copy")
                    rep += 1
                elif how == "mutate" and last_row is not None and last_row[0] == st["rec"] and st.get("rec2", 0) < len(w.records):
                    # the caller reuses one record object as a buffer: same object, one field overwritten in place
                    datum = last_row[1]
                    datum[st.get("fld", "x")] = w.records[st["rec2"]][st.get("fld", "x")]
                    base = dict(datum)
                    w.bump("probe_memo_mutated_in_place")
                    chg += 1
                elif how == "reorder" and last_row is not None and last_row[0] == st["rec"]:
                    # the same fields written in another order, x and y exchanged: position by position the values are those of
                    # the previous record, key by key they are not
                    prev = last_row[1]
                    rest = [(k_, v_) for k_, v_ in prev.items() if k_ not in ("x", "y")]
                    if list(prev)[:2] == ["x", "y"]:
                        datum = dict([("y", prev["x"]), ("x", prev["y"])] + rest)
                    else:
                        datum = dict([("x", prev["y"]), ("y", prev["x"])] + rest)
                    base = dict(datum)
                    w.bump("probe_memo_fields_reordered")
                    chg += 1
                elif how == "flipzero" and last_row is not None and last_row[0] == st["rec"]:
                    datum = {k: _flipzero(v) for k, v in last_row[1].items()}
                    base = dict(datum)
                    w.bump("probe_memo_signed_zero")
                    chg += 1
                elif how == "retype" and last_row is not None and last_row[0] == st["rec"]:
                    # an equal-valued record whose fields have another type (True / 1.0 / 1): == says equal, the
                    # function may not (Categorize accepts a bool but not the number 1.0)
                    datum = {k: _retype(v) for k, v in base.items()}
                    base = dict(datum)
                    w.bump("probe_memo_equal_value_other_type")
                    chg += 1
                else:
                    datum = dict(base)
                    w.bump("probe_memo_change")
                    chg += 1
                last_row = (st["rec"], datum)
                if any(isinstance(v, float) and v == gate.POISON for v in datum.values()):
                    w.bump("probe_memo_function_fault")
                o1 = call(trees[tr].fill, datum, st["w"])
                o2 = call(twins[tr].fill, dict(datum), st["w"])  # the twin always gets a fresh, equal record
            else:
                if any(r >= len(w.records) for r in st["rows"]):
                    continue
                how = st.get("how", "new")
                key = (tuple(st["rows"]), st["box"])
                twin_box = None
                if how == "same" and last_box is not None and last_box[0] == key:
                    b = last_box[1]
                    twin_box = copy.deepcopy(b)
                    rep += 1
                elif how == "mutate" and last_box is not None and last_box[0] == key and st.get("rec2", 0) < len(w.records) and len(st["rows"]):
                    # the batch container is reused as a buffer: first row of one column overwritten in place
                    b = last_box[1]
                    fld, val = st.get("fld", "x"), float(w.records[st["rec2"]][st.get("fld", "x")])
                    if hasattr(b, "iloc"):
                        b.iloc[0, list(b.columns).index(fld)] = val
                    else:
                        b[fld][0] = val
                    twin_box = copy.deepcopy(b)
                    w.bump("probe_memo_batch_mutated_in_place")
                    chg += 1
                else:
                    b = make_box(w.records, st["rows"], st["box"])
                    if how == "copy" and last_box is not None and last_box[0] == key:
                        rep += 1
                    else:
                        chg += 1
                last_box = (key, b)
                w.bump("probe_memo_array_batch")
                o1 = call(trees[tr].fill.numpy, b)
                o2 = call(twins[tr].fill.numpy, twin_box if twin_box is not None else make_box(w.records, st["rows"], st["box"]))
            calls += 1
            w.bump("fault_memo_interleave")
            if o1.ok != o2.ok:
                bad = o1 if not o1.ok else o2
                raise self.violation("CachedFcn", st["op"], "exception:%s" % type(bad.exc).__name__,
                                     "cached system %s, plain twin %s" % (o1.describe(), o2.describe()), si)
            if not o1.ok:
                # both raise alike (e.g. Categorize given the number 1.0): legitimate; the states must still agree
                w.bump("probe_both_raise")
                if type(o1.exc) is not type(o2.exc):
                    raise self.violation("CachedFcn", st["op"], "exception:%s" % type(o1.exc).__name__,
                                         "cached system raised %s, plain twin raised %s" % (o1.describe(), o2.describe()), si)
            for k in range(len(trees)):
                da, db = observe.observe(trees[k]), observe.observe(twins[k])
                if da != db:
                    d = observe.doc_diff(da, db) or ([], "?", "?")
                    raise self.violation("CachedFcn", st["op"], "content:%s" % d[2],
                                         "after step %d the tree filled through the shared cached wrapper differs from its plain twin at %s (%s.%s)" % (
                                             si, d[0], d[1], d[2]), si, {"cached": da, "plain": db})
            w.record_step(st)
        R["shape"] = observe.obs_hash({"specs": [specmod.shape_key(s) for s in case["specs"]], "steps": [[s["op"], s.get("how")] for s in case["steps"]]})
        R["nontrivial"] = calls >= 4 and rep >= 1 and chg >= 1
        R["units"] = calls

    def run_string(self, case, w, R):
        sp = case["spec"]
        fsp = copy.deepcopy(sp)
        for _, s in specmod.walk(fsp):
            if "q" in s and s["q"]["kind"] == "expr":
                s["q"]["mode"] = "fn"
        a, b = call(specmod.build, sp), call(specmod.build, fsp)
        for o in (a, b):
            if not o.ok:
                raise self.violation(exc_site(o.exc)[0], "construct", "exception:%s" % type(o.exc).__name__, o.describe(), 0)
        ta, tb = a.value, b.value
        w.put(1, ta)
        forms = set()
        calls = 0
        ren = case.get("rename") or {}
        if ren:
            w.bump("probe_string_field_named_like_builtin")
        for si, st in enumerate(case["steps"]):
            if st["op"] == "fill":
                if st["rec"] >= len(w.records):
                    continue
                rec = {ren.get(k, k): v for k, v in w.records[st["rec"]].items() if k in ("x", "y")}
                form = st["form"]
                d1, d2 = as_datum(rec, form, case["var"]), as_datum(rec, form, case["var"])
                if calls == 0:
                    w.bump("probe_string_first_" + {"dict": "dict", "obj": "object", "scalar": "scalar"}[form])
                forms.add(form)
                o1, o2 = call(ta.fill, d1, st["w"]), call(tb.fill, d2, st["w"])
            else:
                if any(r >= len(w.records) for r in st["rows"]):
                    continue
                o1 = call(ta.fill.numpy, make_box(w.records, st["rows"], st["box"], ren))
                o2 = call(tb.fill.numpy, make_box(w.records, st["rows"], st["box"], ren))
            calls += 1
            if o1.ok != o2.ok:
                raise self.violation("UserFcn", st["op"], "exception:%s" % type((o1 if not o1.ok else o2).exc).__name__,
                                     "string-quantity tree %s, function-quantity twin %s" % (o1.describe(), o2.describe()), si)
            if not o1.ok:
                w.bump("probe_both_raise")
                continue
            da, db = observe.observe(ta), observe.observe(tb)
            # names differ by construction (the string is its own name): compare content only
            sa, sb = _strip_names(da), _strip_names(db)
            if sa != sb:
                d = observe.doc_diff(sa, sb) or ([], "?", "?")
                raise self.violation("UserFcn", st["op"], "content:%s" % d[2],
                                     "after step %d the tree with string quantities differs from its function twin at %s (%s.%s)" % (si, d[0], d[1], d[2]),
                                     si, {"string": da, "function": db})
            w.record_step(st)
        R["shape"] = observe.obs_hash({"spec": sp, "forms": sorted(forms), "n": calls})
        R["nontrivial"] = calls >= 3 and len(forms) >= 2
        R["units"] = calls

    def shrink(self, case):
        yield from shrink_steps(case)
        yield from shrink_records(case)


def _strip_names(doc):
    if isinstance(doc, dict):
        return {k: _strip_names(v) for k, v in doc.items() if k != "name" and not k.endswith(":name")}
    if isinstance(doc, list):
        return [_strip_names(v) for v in doc]
    return doc


SCENARIO = C17()
