"""C03 -- vectorised fill equals per-row fill (scenario `twin-executors`).

The same chunk is given to a row executor (one fill per row) and to a vector
executor that calls fill.numpy on successive batches whose split points, weight
form (default 1, scalar w, non-negative array including zeros) and column
container (dict of arrays / pandas DataFrame / numpy recarray -- one profile
each) are drawn per run; both start from independently built trees.  After every
batch the two observations must agree once sparse bins and categories whose
whole subtree holds zero weight are dropped, and every input array must be
unchanged.
"""
import math

from .. import observe, spec as specmod
from ..kernel import box_fingerprint, call, exc_site, make_box
from .base import Scenario
from .c01 import tol_for

import numpy as np


def near_edge(sp, recs, ulps=4):
    """does any record value lie within a few ulps of a bin edge of a node that reads it? (awkward regime only)"""
    for _, s in specmod.walk(sp):
        q = s.get("q")
        if not q or q["f"] not in ("x", "y"):
            continue
        edges = []
        p = s["p"]
        if p == "Bin":
            n, lo, hi = s["num"], s["low"], s["high"]
            edges = [lo + (hi - lo) * i / n for i in range(n + 1)] + list(np.linspace(lo, hi, n + 1))
        elif p == "CentrallyBin":
            cs = sorted(s["centers"])
            edges = [(a + b) / 2.0 for a, b in zip(cs[:-1], cs[1:])]
        elif p == "IrregularlyBin":
            edges = s["edges"]
        elif p == "Stack":
            edges = s["thresholds"]
        for r in recs:
            v = r[q["f"]]
            if v != v or abs(v) == math.inf:
                continue
            if p == "SparselyBin":
                k = math.floor((v - s["origin"]) / s["binWidth"]) if abs(v) < 1e15 else 0
                edges = [s["origin"] + (k + d) * s["binWidth"] for d in (-1, 0, 1, 2)]
            for e in edges:
                tol = ulps * max(math.ulp(v), math.ulp(e))
                if abs(v - e) <= tol:
                    return True
    return False


class C03(Scenario):
    prop = "C03"
    level = "exploration"
    profiles = ["dict", "frame", "rec", "dict-awkward", "frame-awkward", "rec-awkward"]
    budgets = {"quick": 20000, "thorough": 400000}
    wall_caps = {"quick": 110, "thorough": 1500}
    rule = ("one run = one tree with >= 1 quantity-bearing node, one chunk of <= 30 (quick) / 150 (thorough) rows from the "
            "critical alphabet (on edges, at high, NaN, +-inf; awkward profiles add 1-3 ulp probes and 1e300), one weight "
            "form (default / scalar / non-negative array with zeros), seeded batch split points and one column container; "
            "row-filled and numpy-filled trees are compared after every batch. Non-trivial: >= 2 batches, >= 1 row on an "
            "edge or non-finite, >= 4 rows. Distinct: hash of (tree shape, container, weight form, batch sizes).")
    assumptions = ["content is compared after dropping sparse bins / categories whose whole subtree holds zero weight",
                   "dyadic regime: exact (numpy's pairwise sums are exact too), mean / variance within tolerance",
                   "awkward regime: a disagreement is ignored when some row value lies within 4 ulps of an edge of a node "
                   "that reads it (either neighbour bin is legitimate there)", "string categories contain no None in "
                   "vector mode (np.unique cannot order None and str)"]
    expected_faults = ["batch_split", "weight_form"]
    expected_probes = ["row_on_edge", "row_nonfinite", "zero_weight_row", "empty_batch", "fast_path_unit_weights", "template_used_before", "interrupted_iadd_empty", "interrupted_pickle", "interrupted_copy", "single_precision_columns"]

    def generate(self, rng, tier, profile):
        big = tier == "thorough"
        box = profile.split("-")[0]
        regime = "awkward" if profile.endswith("awkward") else "dyadic"
        opts = specmod.merge_opts(depth=5 if big else 4, max_nodes=40 if big else 20, regime=regime, count_transform=0.06, count_same_transform=0.06)
        t = rng.fork("tree")
        sp = specmod.gen_spec(t, opts)
        k = 0
        while not any(s["p"] in specmod.HAS_Q for _, s in specmod.walk(sp)) and k < 30:
            sp = specmod.gen_spec(t, opts)
            k += 1
        specmod.use_unweighted(sp, rng.fork("unweighted"))
        crit = specmod.critical_values(sp, regime)
        d = rng.fork("data")
        n = d.randint(0, 150 if (big and d.chance(0.2)) else 30)
        missing_cats = d.chance(0.3)  # a category column with None / NaN in it (an object column)
        recs = [specmod.gen_record(d, crit, {"no_none": not missing_cats, "p_crit": 0.6}) for _ in range(n)]
        if regime == "awkward":
            for r in recs:
                if d.chance(0.03):
                    r[d.pick(["x", "y"])] = d.pick([1e300, -1e300, 1e19, -1e19])
        kn = rng.fork("knobs")
        wform = kn.pick(["one", "one", "scalar", "array", "array", "nearone"])
        if wform == "scalar":
            weights = kn.pick([0.5, 2.0, 1.0, 0.25, 3, 0.0])
        elif wform == "nearone":
            weights = [kn.pick(specmod.NEAR_ONE_WEIGHTS) for _ in recs]
        elif wform == "array":
            # beyond the statement's "non-negative weight array": entries <= 0 or NaN are ignored row-wise and must be
            # ignored alike by the vectorised path ("nan" is the JSON spelling; float("nan") reads it back)
            weights = [specmod.enc_float(kn.pick(specmod.ODD_WEIGHTS)) if kn.chance(0.04) else kn.pick(specmod.POS_WEIGHTS + [0.0, 0.0]) for _ in recs]
        else:
            weights = "one"
        if isinstance(weights, list) and weights and kn.chance(0.06):
            weights[kn.randrange(len(weights))] = "inf"  # one row of infinite weight (float("inf") reads it back)
        s = rng.fork("schedule")
        nb = s.randint(1, 5)
        cuts = sorted(s.randint(0, n) for _ in range(nb - 1))
        narrow = kn.chance(0.15)
        if narrow and weights == "one" and regime == "dyadic":
            # single-precision columns with unit weights: a few values of 2**24 among the small ones (exact in double
            # precision whatever the order, not in single precision)
            for r in recs:
                if d.chance(0.12):
                    r[d.pick(["x", "y"])] = d.pick([16777216.0, -16777216.0, 33554432.0])
        steps = []
        for c in cuts + [n]:
            steps.append({"op": "batch", "upto": c})
            if s.chance(0.2):
                steps.append({"op": "interrupt", "how": s.pick(["iadd_empty", "iadd_zero", "add_empty", "empty_add", "pickle", "copy", "iadd_zero_x600"])})
        return {"spec": sp, "records": [specmod.enc_record(r) for r in recs], "weights": weights, "box": box,
                "steps": steps, "regime": regime,
                # the value templates of the sparse containers were used as aggregators themselves before (both trees alike)
                "used_templates": kn.chance(0.15), "narrow_columns": narrow}

    def run(self, case, w, R):
        sp = case["spec"]
        box = case["box"]
        weights = case["weights"]
        dy = case.get("regime", "dyadic") == "dyadic"
        n = len(w.records)
        wf = "one" if weights == "one" else ("array" if isinstance(weights, list) else "scalar")
        R["shape"] = "%s|%s|%s|%s" % (specmod.shape_key(sp), box, wf, ",".join(str(s.get("upto", s.get("how"))) for s in case["steps"]))
        if not any(s["p"] in specmod.HAS_Q and (s.get("q") or {}).get("kind") != "unweighted" for _, s in specmod.walk(sp)):
            # no quantity that yields one value per row: the number of rows cannot be learnt, fill.numpy is undefined
            # (a constant selection - histogrammar.defs.unweighted - says nothing about it either)
            R["nontrivial"] = False
            return
        if isinstance(weights, list) and len(weights) < n:
            weights = weights + [1.0] * (n - len(weights))
        row = w.build(0)
        vec = w.build(0)
        for o in (row, vec):
            if not o.ok:
                raise self.violation(exc_site(o.exc)[0], "construct", "exception:%s" % type(o.exc).__name__, o.describe(), 0)
        row, vec = row.value, vec.value
        if not hasattr(vec.fill, "numpy"):
            return
        if case.get("used_templates") and n:
            from .pool import _walk_objs

            for tree in (row, vec):
                for node, _, _ in list(_walk_objs(tree)):
                    if type(node).__name__ in ("SparselyBin", "Categorize") or getattr(node, "name", "") in ("SparselyBin", "Categorize"):
                        tpl = node.__dict__.get("value")
                        if tpl is not None and call(tpl.fill, w.records[0], 1.0).ok:
                            w.bump("probe_template_used_before")
        w.put(1, row)
        w.put(2, vec)
        crit = specmod.critical_values(sp, case.get("regime", "dyadic"))
        done = 0
        nb = 0
        special = 0
        for si, st in enumerate(case["steps"]):
            if st["op"] == "interrupt":
                # between two batches both executors do the same content-preserving thing to their tree (a merge with an
                # empty partial, a checkpoint by pickle, a copy): the next batch must land as if nothing had happened
                import pickle

                def interrupted(x, how=st["how"]):
                    if how == "iadd_empty":
                        x += w.build(0).value
                        return x
                    if how == "iadd_zero":
                        x += x.zero()
                        return x
                    if how == "iadd_zero_x600":
                        z = x.zero()
                        for _ in range(600):
                            x += z
                        return x
                    if how == "add_empty":
                        return x + w.build(0).value
                    if how == "empty_add":
                        return w.build(0).value + x
                    if how == "pickle":
                        return pickle.loads(pickle.dumps(x))
                    return x.copy()

                r2, v2 = call(interrupted, row), call(interrupted, vec)
                if r2.ok and v2.ok and hasattr(v2.value.fill, "numpy"):
                    row, vec = r2.value, v2.value
                    w.put(1, row)
                    w.put(2, vec)
                    w.bump("probe_interrupted_" + st["how"])
                continue
            upto = max(done, min(n, st["upto"]))
            rows = list(range(done, upto))
            done = upto
            nb += 1
            w.bump("fault_batch_split")
            if not rows:
                w.bump("probe_empty_batch")
            # row executor
            for i in rows:
                wt = 1.0 if weights == "one" else (float(weights[i]) if isinstance(weights, list) else float(weights))
                o = call(row.fill, w.records[i], wt)
                if not o.ok:
                    raise self.violation(exc_site(o.exc)[0], "fill", "exception:%s" % type(o.exc).__name__,
                                         "row fill raised %s" % o.describe(), si)
                if wt == 0.0:
                    w.bump("probe_zero_weight_row")
                for f in ("x", "y"):
                    v = w.records[i][f]
                    if v != v or abs(v) == math.inf:
                        w.bump("probe_row_nonfinite")
                        special += 1
                    elif v in crit[f]:
                        w.bump("probe_row_on_edge")
                        special += 1
            # vector executor
            b = make_box(w.records, rows, box, None, bool(case.get("narrow_columns")))
            if case.get("narrow_columns"):
                w.bump("probe_single_precision_columns")
            fp = box_fingerprint(b)
            if weights == "one":
                o = call(vec.fill.numpy, b)
                w.bump("probe_fast_path_unit_weights")
            elif isinstance(weights, list):
                wa = np.array([float(weights[i]) for i in rows], dtype=np.float64)
                wa0 = wa.copy()
                o = call(vec.fill.numpy, b, wa)
                w.bump("fault_weight_form")
                if o.ok and wa.tobytes() != wa0.tobytes():
                    raise self.violation(sp["p"], "fillnumpy", "input-mutated:weights", "fill.numpy modified the caller's weight array", si)
            else:
                o = call(vec.fill.numpy, b, float(weights))
                w.bump("fault_weight_form")
            if not o.ok:
                raise self.violation(exc_site(o.exc)[0], "fillnumpy", "exception:%s" % type(o.exc).__name__,
                                     "fill.numpy raised %s (rows %s, weights %s, container %s)" % (o.describe(), rows[:8], wf, box), si)
            if box_fingerprint(b) != fp:
                raise self.violation(sp["p"], "fillnumpy", "input-mutated:data", "fill.numpy modified the caller's input arrays", si)
            da, db = observe.observe(row), observe.observe(vec)
            da["data"] = observe.drop_empty(da["type"], da["data"])
            db["data"] = observe.drop_empty(db["type"], db["data"])
            tol = tol_for(w.records, done + 4)
            tol.sums = not dy
            d = observe.doc_diff(da, db, tol)
            if d is not None:
                if not dy and near_edge(sp, [w.records[i] for i in range(done)]):
                    w.bump("probe_near_edge_skip")
                    return
                raise self.violation(d[1], "fillnumpy", "content:%s" % d[2],
                                     "after batch %d (%d rows so far, weights %s, container %s) the numpy-filled tree differs from the "
                                     "row-filled tree at %s (%s.%s)" % (nb, done, wf, box, d[0], d[1], d[2]), si,
                                     {"rows": da, "numpy": db})
            w.record_step(st, {1: observe.obs_hash(da), 2: observe.obs_hash(db)})
        R["nontrivial"] = nb >= 2 and special >= 1 and n >= 4
        R["units"] = nb


SCENARIO = C03()
