"""Fake Spark peer (surface S7): a ``pyspark.sql.column.Column`` class and a
``_jvm...AggregatorConverter`` that let the *real* ``fill.sparksql`` /
``_sparksql`` / ``Factory.fromJson`` / ``__iadd__`` code run unmodified.

The converter records the tree the library exports, runs simulated executors
over the frame's partitions (with the Python library itself -- nothing is learned
about the Scala side) and returns an object whose ``toJsonString()`` is the merged
partial.
"""
import sys
import types

from .. import model, observe, spec as specmod
from ..kernel import HarnessError, call
from .c01 import tol_for


class Column:
    def __init__(self, field):
        self.field = field
        self._jc = ("jc", field)

    def __str__(self):
        return "Column<%s>" % self.field


def install():
    mods = {}
    for name in ("pyspark", "pyspark.sql", "pyspark.sql.column"):
        mods[name] = sys.modules.get(name)
        m = types.ModuleType(name)
        sys.modules[name] = m
    sys.modules["pyspark.sql.column"].Column = Column
    sys.modules["pyspark"].sql = sys.modules["pyspark.sql"]
    sys.modules["pyspark.sql"].column = sys.modules["pyspark.sql.column"]
    return mods


def uninstall(mods):
    for name, m in mods.items():
        if m is None:
            sys.modules.pop(name, None)
        else:
            sys.modules[name] = m


def _q(jc):
    return {"f": jc[1], "kind": "named", "name": jc[1]}


class Converter:
    """Receives the calls the library's ``_sparksql`` methods make; builds a spec."""

    def __init__(self, cluster):
        self.cluster = cluster

    def Count(self):
        return {"p": "Count"}

    def Sum(self, jc):
        return {"p": "Sum", "q": _q(jc)}

    def Average(self, jc):
        return {"p": "Average", "q": _q(jc)}

    def Deviate(self, jc):
        return {"p": "Deviate", "q": _q(jc)}

    def Minimize(self, jc):
        return {"p": "Minimize", "q": _q(jc)}

    def Maximize(self, jc):
        return {"p": "Maximize", "q": _q(jc)}

    def Bag(self, jc, range_):
        return {"p": "Bag", "q": _q(jc), "range": range_}

    def Bin(self, num, low, high, jc, value, underflow, overflow, nanflow):
        return {"p": "Bin", "num": num, "low": low, "high": high, "q": _q(jc), "value": value, "underflow": underflow,
                "overflow": overflow, "nanflow": nanflow}

    def SparselyBin(self, binWidth, jc, value, nanflow, origin):
        return {"p": "SparselyBin", "binWidth": binWidth, "origin": origin, "q": _q(jc), "value": value, "nanflow": nanflow}

    def CentrallyBin(self, centers, jc, value, nanflow):
        return {"p": "CentrallyBin", "centers": list(centers), "q": _q(jc), "value": value, "nanflow": nanflow}

    def IrregularlyBin(self, edges, jc, value, nanflow):
        return {"p": "IrregularlyBin", "edges": list(edges), "q": _q(jc), "value": value, "nanflow": nanflow}

    def Stack(self, thresholds, jc, value, nanflow):
        return {"p": "Stack", "thresholds": list(thresholds), "q": _q(jc), "value": value, "nanflow": nanflow}

    def Categorize(self, jc, value):
        return {"p": "Categorize", "q": _q(jc), "value": value}

    def Select(self, jc, cut):
        return {"p": "Select", "q": _q(jc), "cut": cut}

    def Fraction(self, jc, value):
        return {"p": "Fraction", "q": _q(jc), "value": value}

    def Label(self, pairs):
        return {"p": "Label", "pairs": dict(pairs)}

    def UntypedLabel(self, pairs):
        return {"p": "UntypedLabel", "pairs": dict(pairs)}

    def Index(self, values):
        return {"p": "Index", "values": list(values)}

    def Branch(self, *values):
        return {"p": "Branch", "values": list(values)}

    def histogrammar(self, jdf, agg):
        return self.cluster.aggregate(jdf, agg)


class _Scala:
    @staticmethod
    def Tuple2(k, v):
        return (k, v)


class _Result:
    def __init__(self, text):
        self.text = text

    def toJsonString(self):
        return self.text


class Cluster:
    """The simulated cluster behind the converter."""

    def __init__(self, world):
        self.w = world
        self.exported = []

    def make_jvm(self):
        cluster = self

        class _Pkg:
            def __getattr__(self, name):
                if name == "AggregatorConverter":
                    return lambda: Converter(cluster)
                return self

        jvm = types.SimpleNamespace()
        jvm.org = _Pkg()
        jvm.scala = _Scala
        return jvm

    def aggregate(self, jdf, agg):
        w = self.w
        self.exported.append(agg)
        parts = jdf["parts"]
        partials = []
        for chunk in parts:
            h = specmod.build(agg)
            for i in chunk:
                h.fill(w.records[i], 1.0)
            partials.append(h)
        for l, r in jdf["order"]:
            if l < len(partials) and r < len(partials) and l != r and partials[l] is not None and partials[r] is not None:
                partials[l] = partials[l] + partials[r]
                partials[r] = None
        rest = [p for p in partials if p is not None]
        out = rest[0]
        for p in rest[1:]:
            out = out + p
        w.bump("wire_jvm")
        return _Result(out.toJsonString())


class Frame:
    def __init__(self, cluster, jdf):
        self._jdf = jdf
        self._sc = types.SimpleNamespace(_jvm=cluster.make_jvm())


def to_column_spec(s):
    """the driver's tree: the same spec with Column quantities (kind 'column')"""
    import copy

    s = copy.deepcopy(s)
    for _, sp in specmod.walk(s):
        if "q" in sp:
            sp["q"] = {"f": sp["q"]["f"], "kind": "column"}
    return s


def generate(scn, rng, tier):
    opts = specmod.merge_opts(depth=4, max_nodes=24, bag_ranges=["N", "S"], p_default=0.2, qkinds=[("lambda", 1)])
    sp = to_column_spec(specmod.gen_spec(rng.fork("tree"), opts))
    crit = specmod.critical_values(sp)
    d = rng.fork("data")
    n = d.randint(4, 40)
    recs = [specmod.gen_record(d, crit) for _ in range(n)]
    s = rng.fork("schedule")
    steps = [{"op": "new", "spec": 0, "out": 1, "actor": "D", "t": 0}]
    for fi in range(s.randint(1, 4)):
        rows = [s.randrange(n) for _ in range(s.randint(0, 12))]
        k = s.randint(1, 4)
        parts = [[] for _ in range(k)]
        for r in rows:
            parts[s.randrange(k)].append(r)
        order = [[s.randrange(k), s.randrange(k)] for _ in range(k)]
        steps.append({"op": "sparksql", "obj": 1, "parts": parts, "order": order, "actor": "D", "t": fi + 1})
    return {"specs": [sp], "records": [specmod.enc_record(r) for r in recs], "steps": steps, "kind": "sparksql",
            "regime": "dyadic"}


def run(scn, case, w, R):
    mods = install()
    try:
        _run(scn, case, w, R)
    finally:
        uninstall(mods)


def _run(scn, case, w, R):
    R["shape"] = "spark:" + specmod.shape_key(case["specs"][0])
    cluster = Cluster(w)
    cover = []
    frames = 0
    for si, st in enumerate(case["steps"]):
        if st["op"] == "new":
            o = w.build(st["spec"])
            h = scn.lib(o, "construct", si)
            w.put(st["out"], h, k=0, via="ctor", mut=True)
        elif st["op"] == "sparksql":
            if not w.has(st["obj"]):
                continue
            if any(i >= len(w.records) for p in st["parts"] for i in p):
                continue
            h = w.heap[st["obj"]]
            df = Frame(cluster, {"parts": st["parts"], "order": st["order"]})
            o = call(h.fill.sparksql, df) if hasattr(h.fill, "sparksql") else call(h.fillsparksql, df)
            scn.lib(o, "sparksql", si)
            frames += 1
            for p in st["parts"]:
                for i in p:
                    cover.append((i, 1.0))
            doc = observe.observe(h)
            m = model.model_doc(case["specs"][0], [(w.records[i], wt) for i, wt in cover])
            d = observe.doc_diff(doc, m, tol_for(w.records, len(cover) + 8 * frames))
            if d is not None:
                raise scn.violation(d[1], "sparksql", "content:%s" % d[2],
                                    "after fill.sparksql of frame %d the driver differs from the model of all rows shipped "
                                    "so far at %s (%s.%s)" % (frames, d[0], d[1], d[2]), si, {"observed": doc, "expected": m})
            if len([p for p in st["parts"] if p]) >= 2:
                w.bump("probe_jvm_multi_partition")
        w.record_step(st)
    R["nontrivial"] = frames >= 1 and len(cover) >= 2
    R["units"] = frames
