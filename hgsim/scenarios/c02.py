"""C02 -- fill computes the specified function of the weighted multiset
(scenario `stream-refinement`).

One producer emits a stream of (record, weight) including weights 0, negative
and NaN; two consumer replicas receive it through reordering wires (each its own
permutation) and apply fill one delivery per step.  After *every* delivery the
replica must equal the exact reference model of what it has received so far
(operation-by-operation refinement); a delivery with weight <= 0 or NaN leaves it
bit-identical; at the end the two replicas agree.  In the awkward regime only
replica agreement and the no-op rule are demanded (bin membership near non-dyadic
edges is C05's business).
"""
from .. import model, observe, spec as specmod
from ..kernel import call, exc_site
from ..sched import Sched
from .base import Scenario
from .c01 import tol_for


class C02(Scenario):
    prop = "C02"
    level = "exploration"
    profiles = ["dyadic", "dyadic", "dyadic", "awkward"]
    budgets = {"quick": 16000, "thorough": 300000}
    wall_caps = {"quick": 110, "thorough": 1500}
    rule = ("one run = one tree (19 primitives) and one stream of <= 40 (quick) / 200 (thorough) weighted records drawn from "
            "the tree's critical alphabet (every edge, threshold, centre midpoint, their neighbours, NaN, +-inf, strings / "
            "None) with weights from {positive dyadics, 0, negatives, NaN}, delivered to two replicas in two seeded "
            "permutations produced by wire latencies; the reference model is evaluated after every delivery. "
            "units_checked = deliveries compared with the model. Non-trivial: >= 6 deliveries with positive weight and >= 1 "
            "value exactly on an edge or non-finite. Distinct: hash of (tree shape, schedule shape).")
    assumptions = ["reference model (hgsim/model.py) is the specification; exact comparison in the dyadic regime, mean / "
                   "variance within the run-derived tolerance", "in the awkward regime the model is not consulted: only "
                   "order-independence (sums within tolerance) and the no-op rule for non-positive weights are demanded"]
    expected_faults = ["reorder", "delay"]
    expected_probes = ["nonpositive_weight_delivery", "edge_value_delivery", "nonfinite_delivery", "none_category_delivery", "empty_tree_via_zero", "empty_tree_via_iadd_empty",
                       "empty_tree_via_pickle", "interrupted_iadd_empty", "interrupted_pickle"]

    def generate(self, rng, tier, profile):
        big = tier == "thorough"
        opts = specmod.merge_opts(depth=5 if big else 4, max_nodes=40 if big else 24, regime=profile, count_transform=0.08, count_same_transform=0.06)
        sp = specmod.gen_spec(rng.fork("tree"), opts)
        crit = specmod.critical_values(sp, profile)
        d = rng.fork("data")
        n = d.randint(1, 200 if (big and d.chance(0.2)) else 40)
        recs = [specmod.gen_record(d, crit, {"p_crit": 0.65}) for _ in range(n)]
        ws = [d.pick(specmod.ODD_WEIGHTS) if d.chance(0.15) else d.pick(specmod.POS_WEIGHTS) for _ in recs]
        s = rng.fork("schedule")
        sch = Sched(s)
        for i in range(n):
            for rep in (1, 2):
                sch.after(i + s.pick([0, 0, 1, 2, 5, 20, 60]), "W%d" % rep, i)
        steps = []
        while len(sch):
            t, _, actor, i = sch.pop()
            steps.append({"op": "deliver", "to": int(actor[1]), "rec": i, "w": specmod.enc_float(ws[i]), "actor": actor, "t": t})
            if s.chance(0.03):
                # the consumer checkpoints / merges an empty partial / copies its tree in the middle of the stream
                steps.append({"op": "interrupt", "to": int(actor[1]), "how": s.pick(["iadd_empty", "iadd_zero", "add_empty", "pickle", "copy", "iadd_zero_x600"]), "actor": actor, "t": t})
        # the second replica's empty tree is not always fresh from the constructor: any empty tree must do
        origin = rng.fork("knobs").pick(["ctor", "ctor", "zero", "copy", "pickle", "iadd-empty", "add-empty", "zero-of-sum", "iadd-empty-x600"])
        return {"spec": sp, "records": [specmod.enc_record(r) for r in recs], "steps": steps, "regime": profile, "origin": origin}

    def _empty_via(self, w, h, origin):
        """an empty tree of the same specification that did not come straight from the constructor"""
        import pickle

        def filled():
            o = w.build(0)
            if not o.ok:
                return None
            for rec in w.records[:3]:
                if not call(o.value.fill, rec, 1.0).ok:
                    return None
            return o.value

        def mk():
            if origin == "zero":
                f = filled()
                return f.zero() if f is not None else h
            if origin == "copy":
                return h.copy()
            if origin == "pickle":
                return pickle.loads(pickle.dumps(h))
            if origin == "add-empty":
                return h + w.build(0).value
            if origin == "zero-of-sum":
                f, g = filled(), filled()
                return (f + g).zero() if f is not None and g is not None else h
            x = h
            for _ in range(600 if origin == "iadd-empty-x600" else 1):
                # (x600: an accumulator that waited for its first datum while hundreds of empty partial results were merged in)
                x += w.build(0).value if origin != "iadd-empty-x600" else h.zero()
            return x

        o = call(mk)
        if not o.ok or o.value is None:
            return h  # not this property's business (C01 / C07 / C11 look at these operations)
        e = call(lambda: (observe.observe(o.value), observe.observe(h)))
        if not e.ok or e.value[0] != e.value[1]:
            return h
        return o.value

    def run(self, case, w, R):
        sp = case["spec"]
        dy = case.get("regime", "dyadic") == "dyadic"
        R["shape"] = specmod.shape_key(sp)
        crit = specmod.critical_values(sp, case.get("regime", "dyadic"))
        reps = {}
        got = {1: [], 2: []}
        order = {1: [], 2: []}
        for k in (1, 2):
            o = w.build(0)
            if not o.ok:
                raise self.violation(exc_site(o.exc)[0], "construct", "exception:%s" % type(o.exc).__name__, o.describe(), 0)
            h = o.value
            origin = case.get("origin", "ctor") if k == 2 else "ctor"
            if origin != "ctor":
                h = self._empty_via(w, h, origin)
                w.bump("probe_empty_tree_via_" + origin.replace("-", "_"))
            reps[k] = h
            w.put(k, h)
        pos = 0
        special = 0
        units = 0
        for si, st in enumerate(case["steps"]):
            if st["op"] == "interrupt":
                k = st["to"]
                if k in reps:
                    import pickle

                    def interrupted(x, how=st["how"]):
                        if how == "iadd_empty":
                            x += w.build(0).value
                            return x
                        if how == "iadd_zero":
                            x += x.zero()
                            return x
                        if how == "iadd_zero_x600":
                            z = x.zero()
                            for _ in range(600):
                                x += z
                            return x
                        if how == "add_empty":
                            return x + w.build(0).value
                        if how == "pickle":
                            return pickle.loads(pickle.dumps(x))
                        return x.copy()

                    before = observe.observe(reps[k])
                    o = call(interrupted, reps[k])
                    if o.ok and observe.observe(o.value) == before:
                        reps[k] = o.value
                        w.put(k, o.value)
                        w.bump("probe_interrupted_" + st["how"])
                continue
            k, i = st["to"], st["rec"]
            if i >= len(w.records) or k not in reps:
                continue
            rec, wt = w.records[i], specmod.dec_float(st["w"])
            h = reps[k]
            before = observe.observe(h)
            o = call(h.fill, rec, wt)
            if not o.ok:
                raise self.violation(exc_site(o.exc)[0], "fill", "exception:%s" % type(o.exc).__name__,
                                     "fill(record %d, weight %r) raised %s" % (i, wt, o.describe()), si)
            after = observe.observe(h)
            order[k].append(i)
            if not (wt > 0):
                w.bump("probe_nonpositive_weight_delivery")
                if after != before:
                    d = observe.doc_diff(before, after) or ([], sp["p"], "?")
                    raise self.violation(d[1], "fill", "state-changed:%s" % d[2],
                                         "a fill with weight %r changed the aggregator at %s (%s.%s)" % (wt, d[0], d[1], d[2]), si,
                                         {"before": before, "after": after})
            else:
                pos += 1
                got[k].append((rec, wt))
                for f in ("x", "y"):
                    v = rec[f]
                    if v != v or abs(v) == float("inf"):
                        w.bump("probe_nonfinite_delivery")
                        special += 1
                    elif v in crit[f]:
                        w.bump("probe_edge_value_delivery")
                        special += 1
                if rec.get("s") is None or rec.get("s") != rec.get("s"):
                    w.bump("probe_none_category_delivery")
                if dy:
                    m = model.model_doc(sp, got[k])
                    d = observe.doc_diff(after, m, tol_for(w.records, len(got[k])))
                    units += 1
                    if d is not None:
                        raise self.violation(d[1], "fill", "content:%s" % d[2],
                                             "after delivery %d (record %d, weight %r) replica %d differs from the reference model at %s (%s.%s)" % (
                                                 si, i, wt, k, d[0], d[1], d[2]), si, {"observed": after, "expected": m})
            w.record_step(st, {k: observe.obs_hash(after)})
        # order independence
        if sorted(order[1]) == sorted(order[2]):
            a, b = observe.observe(reps[1]), observe.observe(reps[2])
            tol = tol_for(w.records, len(got[1]) + 1)
            tol.sums = not dy
            d = observe.doc_diff(a, b, tol)
            if order[1] != order[2]:
                w.bump("fault_reorder")
                w.bump("fault_delay")
            if d is not None:
                raise self.violation(d[1], "fill", "order-dependent:%s" % d[2],
                                     "two replicas that received the same stream in different orders differ at %s (%s.%s)" % (d[0], d[1], d[2]),
                                     len(case["steps"]), {"one": a, "other": b})
        R["nontrivial"] = pos >= 6 and special >= 1
        R["units"] = units


SCENARIO = C02()
