"""Batch runner: seeds -> cases -> executions, in 16 forked workers; minimisation,
known findings, replay files, evidence."""
import concurrent.futures as cf
import faulthandler
import hashlib
import json
import multiprocessing as mp
import os
import subprocess
import sys
import time
import traceback

from . import VERIF, REPO
from .kernel import HarnessError, RunTimeout, Violation
from .rng import Rng, run_seed

RUN_TIMEOUT_S = 300.0      # CPU seconds one run may use (ITIMER_PROF: a busy machine does not trip it)
RUN_WALL_TIMEOUT_S = 900.0  # wall-clock seconds one run may take whatever the load
RUN_MEM_LIMIT = 6 << 30
EVIDENCE_DIR = os.path.join(VERIF, "evidence")
REPLAY_DIR = os.path.join(VERIF, "replays")
FINDINGS_FILE = os.path.join(VERIF, "known_findings.txt")

COMPONENTS = {
    "real": ["histogrammar (all primitives, defs, util, specialized, version, dfinterface pandas side) imported from "
             "the working tree of /repo", "numpy", "pandas", "json", "pickle"],
    "stub": ["cluster runtime (driver / executor / reader actors, scheduler)", "network transports (RefWire, "
             "PickleWire, JsonWire)", "disk (SimPath/SimDisk replacing histogrammar.defs.Path)",
             "JVM peer and pyspark module (fake AggregatorConverter)", "user quantity functions (generated, gated)",
             "record sources"],
}


def load_scenario(prop):
    import importlib

    mod = importlib.import_module("hgsim.scenarios.%s" % prop.lower())
    return mod.SCENARIO


# --------------------------------------------------------------------------- one run


def execute_case(scen, case):
    """-> result dict.  HarnessError propagates."""
    res = scen.execute(case)
    return res


def one_run(scen, tier, verif_seed, index):
    seed = run_seed(verif_seed, scen.prop, tier, index)
    rng = Rng(seed)
    profile = scen.profiles[index % len(scen.profiles)]
    from . import spec as _spec

    _spec.RECORD_KNOBS["int_column"] = rng.fork("record-knobs").pick([None] * 8 + ["npu8", "npi8", "npi16", "npi64", "int"])
    try:
        case = scen.generate(rng, tier, profile)
    finally:
        _spec.RECORD_KNOBS["int_column"] = None
    # swarm knobs every scenario understands (World.build / World.ship read them)
    env = rng.fork("environment")
    case.setdefault("vary_label_order", env.chance(0.3))
    case.setdefault("json_sort_keys", env.chance(0.3))
    case["prop"] = scen.prop
    case["profile"] = profile
    case["seed"] = seed
    case["index"] = index
    res = scen.execute(case)
    return case, res


def _merge_counts(dst, src):
    for k, v in src.items():
        dst[k] = dst.get(k, 0) + v


def run_block(prop, tier, verif_seed, indices, deadline):
    """Worker entry point."""
    faulthandler.enable()
    import resource
    import signal

    try:
        resource.setrlimit(resource.RLIMIT_AS, (RUN_MEM_LIMIT, RUN_MEM_LIMIT))
    except (ValueError, OSError):
        pass

    def _alarm(*_a):
        if os.environ.get("HGSIM_DEBUG_TIMEOUT"):
            faulthandler.dump_traceback(all_threads=False)
        raise RunTimeout()

    signal.signal(signal.SIGALRM, _alarm)
    signal.signal(signal.SIGPROF, _alarm)
    from . import import_library

    import_library()
    scen = load_scenario(prop)
    agg = {"evaluations": 0, "nontrivial": 0, "shapes": set(), "schedules": set(), "states": 0, "events": 0,
           "faults": {}, "probes": {}, "violations": [], "samples": [], "digest": 0,
           "truncated": 0, "skipped": 0, "units": 0, "wall": 0.0, "known": {}}
    t0 = time.time()
    per_sig = {}
    for i in indices:
        if time.time() > deadline:
            agg["skipped"] += 1
            continue
        signal.setitimer(signal.ITIMER_REAL, RUN_WALL_TIMEOUT_S)
        signal.setitimer(signal.ITIMER_PROF, RUN_TIMEOUT_S)
        try:
            case, res = one_run(scen, tier, verif_seed, i)
        except (RunTimeout, MemoryError, RecursionError) as e:
            signal.setitimer(signal.ITIMER_REAL, 0)
            signal.setitimer(signal.ITIMER_PROF, 0)
            raise HarnessError("run %d of %s (%s tier, VERIF_SEED=%s) hit the per-run watchdog: %s" % (
                i, prop, tier, verif_seed, type(e).__name__))
        finally:
            signal.setitimer(signal.ITIMER_REAL, 0)
            signal.setitimer(signal.ITIMER_PROF, 0)
        agg["evaluations"] += 1
        agg["units"] += res.get("units", 1)
        agg["events"] += res.get("steps", 0)
        agg["states"] += res.get("states", 0)
        agg["digest"] = (agg["digest"] + int(hashlib.sha256(("%d:%s" % (i, res.get("digest", ""))).encode()).hexdigest()[:24], 16)) % (1 << 96)
        _merge_counts(agg["faults"], res.get("faults", {}))
        _merge_counts(agg["probes"], res.get("probes", {}))
        _merge_counts(agg["known"], res.get("known", {}))
        if res.get("nontrivial"):
            agg["nontrivial"] += 1
            agg["shapes"].add(res.get("shape", ""))
            if len(agg["samples"]) < 1:
                agg["samples"].append(scen.sample(case, res))
        agg["schedules"].add(res.get("schedule", ""))
        v = res.get("violation")
        if v is not None:
            sig = v["signature"]
            per_sig[sig] = per_sig.get(sig, 0) + 1
            if per_sig[sig] <= 2:
                agg["violations"].append({"signature": sig, "violation": v, "case": case, "size": res.get("steps", 0)})
            else:
                agg["violations"].append({"signature": sig, "violation": None, "case": None, "size": 0})
    agg["shapes"] = sorted(agg["shapes"])
    agg["schedules"] = sorted(agg["schedules"])
    agg["wall"] = time.time() - t0
    return agg


# --------------------------------------------------------------------------- known findings


def load_findings():
    open_, fixed = [], []
    if os.path.exists(FINDINGS_FILE):
        for line in open(FINDINGS_FILE):
            line = line.strip()
            if not line or line.startswith("#"):
                continue
            if line.startswith("open:"):
                d = {}
                body = line[5:].strip()
                # property=.. sig=.. replay=.. what=<rest>
                what = ""
                if " what=" in body:
                    body, what = body.split(" what=", 1)
                for tok in body.split():
                    if "=" in tok:
                        k, v = tok.split("=", 1)
                        d[k] = v
                d["what"] = what
                open_.append(d)
            elif line.startswith("fixed:"):
                fixed.append(line)
    return open_, fixed


# --------------------------------------------------------------------------- minimisation


def violates_same(scen, case, sig):
    try:
        res = scen.execute(case)
    except HarnessError:
        return False
    v = res.get("violation")
    return v is not None and v["signature"] == sig


def minimise(scen, case, sig, budget_s=25.0, max_tries=400):
    """Delta debugging over the dimensions the scenario exposes; a candidate is accepted
    only if it still yields a violation with the same signature."""
    t_end = time.time() + budget_s
    tries = 0
    best = case
    improved = True
    while improved and time.time() < t_end and tries < max_tries:
        improved = False
        for cand in scen.shrink(best):
            if time.time() > t_end or tries >= max_tries:
                break
            tries += 1
            if violates_same(scen, cand, sig):
                best = cand
                improved = True
                break
    return best, tries


# --------------------------------------------------------------------------- replay files


def write_replay(prop, seed, case, violation, digest, minimised_from):
    os.makedirs(REPLAY_DIR, exist_ok=True)
    path = os.path.join(REPLAY_DIR, "%s-%s.json" % (prop, seed))
    doc = {"property": prop, "seed": seed, "profile": case.get("profile"), "case": case, "violation": violation,
           "digest": digest, "minimised_from_steps": minimised_from}
    with open(path, "w") as f:
        json.dump(doc, f, indent=1, sort_keys=True)
    return path


def replay_file(path):
    """-> (reproduced?, result)"""
    from . import import_library

    import_library()
    doc = json.load(open(path))
    scen = load_scenario(doc["property"])
    res = scen.execute(doc["case"])
    v = res.get("violation")
    ok = v is not None and v["signature"] == doc["violation"]["signature"] and res.get("digest") == doc.get("digest")
    return ok, res, doc


def replay_in_fresh_interpreter(path):
    env = dict(os.environ)
    env["PYTHONHASHSEED"] = "0"
    env["HGSIM_REEXEC"] = "1"
    p = subprocess.run([sys.executable, "-m", "hgsim.cli", "replay", path, "--quiet"], cwd=VERIF, env=env,
                       capture_output=True, text=True, timeout=300)
    return p.returncode == 1 and "REPRODUCED" in p.stdout


# --------------------------------------------------------------------------- the check


def check(prop, tier, verif_seed, workers=16, budget=None, wall_cap=None, write_evidence=True, quiet=False):
    t0 = time.time()
    scen = load_scenario(prop)
    if write_evidence and os.path.isdir(REPLAY_DIR):
        for fn in os.listdir(REPLAY_DIR):
            if fn.startswith(prop + "-"):
                os.remove(os.path.join(REPLAY_DIR, fn))
    n_runs = budget or scen.budgets[tier]
    wall_cap = wall_cap or scen.wall_caps.get(tier, 150)
    deadline = t0 + wall_cap
    block = max(1, min(scen.block, (n_runs + workers * 4 - 1) // (workers * 4)))
    blocks = [list(range(i, min(n_runs, i + block))) for i in range(0, n_runs, block)]
    results = []
    ctx = mp.get_context("fork")
    with cf.ProcessPoolExecutor(max_workers=workers, mp_context=ctx) as ex:
        futs = [ex.submit(run_block, prop, tier, verif_seed, b, deadline) for b in blocks]
        for f in futs:
            try:
                results.append(f.result(timeout=max(30, deadline - time.time() + 120)))
            except cf.TimeoutError:
                raise HarnessError("worker block timed out")
            except cf.process.BrokenProcessPool:
                raise HarnessError("worker died")
    agg = {"evaluations": 0, "nontrivial": 0, "events": 0, "states": 0, "faults": {}, "probes": {}, "skipped": 0,
           "units": 0, "known": {}}
    shapes, schedules = set(), set()
    samples, violations = [], []
    dig = 0
    for r in results:
        for k in ("evaluations", "nontrivial", "events", "states", "skipped", "units"):
            agg[k] += r[k]
        _merge_counts(agg["faults"], r["faults"])
        _merge_counts(agg["probes"], r["probes"])
        _merge_counts(agg["known"], r["known"])
        shapes.update(r["shapes"])
        schedules.update(r["schedules"])
        samples += r["samples"]
        violations += r["violations"]
        dig = (dig + r["digest"]) % (1 << 96)

    # ---- regression inputs: replay files of defects that were fixed (and of open findings)
    regress_n = 0
    rdir = os.path.join(VERIF, "findings", "regress")
    if os.path.isdir(rdir):
        for fn in sorted(os.listdir(rdir)):
            if fn.startswith(prop + "-") and fn.endswith(".json"):
                doc = json.load(open(os.path.join(rdir, fn)))
                case = doc["case"]
                case.setdefault("index", -1)
                case.setdefault("seed", doc.get("seed", 0))
                res = scen.execute(case)
                regress_n += 1
                agg["evaluations"] += 1
                if res.get("violation") is not None:
                    violations.append({"signature": res["violation"]["signature"], "violation": res["violation"],
                                       "case": case, "size": res.get("steps", 0)})
    # ---- violations: group by signature
    open_findings, _fixed = load_findings()
    open_by_sig = {}
    for d in open_findings:
        if d.get("property") == prop:
            open_by_sig[d.get("sig")] = d
    by_sig = {}
    for v in violations:
        by_sig.setdefault(v["signature"], []).append(v)
    known_hit, reported = {}, []
    lines = []
    for sig in sorted(agg["known"]):
        if sig in open_by_sig:
            known_hit[sig] = agg["known"][sig]
            lines.append("KNOWN-FINDING: property=%s %s [%s] (%d occurrences, runs continued)" % (
                prop, open_by_sig[sig]["what"], sig, agg["known"][sig]))
    for sig in sorted(by_sig):
        group = by_sig[sig]
        if sig in open_by_sig:
            known_hit[sig] = known_hit.get(sig, 0) + len(group)
            if sig in agg["known"]:
                continue
            lines.append("KNOWN-FINDING: property=%s %s [%s] (%d runs)" % (prop, open_by_sig[sig]["what"], sig, len(group)))
            continue
        withcase = [g for g in group if g["case"] is not None]
        withcase.sort(key=lambda g: (g["size"], g["case"]["index"]))
        g = withcase[0]
        if len(reported) < int(os.environ.get("HGSIM_MAX_REPORT", "6")):
            small, tries = minimise(scen, g["case"], sig, budget_s=scen.minimise_s)
            res = scen.execute(small)
            v = res.get("violation")
            if v is None or v["signature"] != sig:
                # the minimised case does not reproduce when executed once more in this process: the failure depends on
                # state the library keeps across operations (a process-global cache, a mutated default argument ...).
                # Report the original case as recorded by the worker.
                small, tries = g["case"], -1
                res = scen.execute(small)
                v = res.get("violation")
                if v is None or v["signature"] != sig:
                    v = g["violation"]
                    res = {"digest": None, "steps": g["size"]}
            path = write_replay(prop, g["case"]["seed"], small, v, res.get("digest"), g["size"])
            try:
                rok = replay_in_fresh_interpreter(path)
            except Exception:
                rok = False
            reported.append({"signature": sig, "replay": path, "runs": len(group), "message": v["message"],
                             "replay_ok": rok, "minimise_tries": tries, "steps": res.get("steps")})
            lines.append("VIOLATION property=%s replay=%s" % (prop, path))
            lines.append("  signature=%s runs=%d replay_ok=%s :: %s" % (sig, len(group), rok, v["message"][:300]))
        else:
            reported.append({"signature": sig, "replay": None, "runs": len(group)})
            lines.append("VIOLATION property=%s replay=%s" % (prop, "(not written: more than 6 distinct signatures)"))
            lines.append("  signature=%s runs=%d" % (sig, len(group)))
    wall = time.time() - t0
    stuck = sorted(k for k in scen.expected_faults if agg["faults"].get(k, 0) == 0)
    stuck_probes = sorted(k for k in scen.expected_probes if agg["probes"].get(k, 0) == 0)
    ev = {
        "property_id": prop,
        "tier": tier,
        "seed": int(verif_seed),
        "level": scen.level,
        "coverage": {
            "evaluations": agg["evaluations"],
            "distinct_nontrivial": len(shapes),
            "rule": scen.rule,
            "samples": samples[:3],
            "exhaustive": False,
            "units_checked": agg["units"],
            "nontrivial_runs": agg["nontrivial"],
            "runs_per_hour": int(agg["evaluations"] / max(wall, 1e-6) * 3600),
            "seeds": {"verif_seed": int(verif_seed), "first_index": 0, "count": n_runs,
                      "derivation": "run_seed = sha256('hgsim', VERIF_SEED, property, tier, index)"},
            "sim_events": agg["events"],
            "sim_time_ticks": agg["events"],
            "sim_time_note": "the library has no clock; 'time' is the number of scheduled events (schedule length)",
            "fault_counts": dict(sorted(agg["faults"].items())),
            "probes": dict(sorted(agg["probes"].items())),
            "probe_stuck": stuck + stuck_probes,
            "distinct_schedules": len(schedules),
            "distinct_states": agg["states"],
            "distinct_states_note": "sum over runs of distinct observation hashes reached within the run",
            "components": COMPONENTS,
            "known_findings_hit": known_hit,
            "truncated_by_known_finding": sum(known_hit.values()),
            "violations_reported": reported,
            "runs_skipped_by_wall_cap": agg["skipped"],
            "batch_digest": "%024x" % dig,
            "profiles": scen.profiles,
            "regression_cases_replayed": regress_n,
        },
        "assumptions": scen.assumptions,
        "wall_s": round(wall, 2),
        "violations": len(reported),
    }
    if write_evidence:
        os.makedirs(EVIDENCE_DIR, exist_ok=True)
        try:
            import jsonschema

            schema = json.load(open("/root/.vp/EVIDENCE.schema.json")) if os.path.exists(
                "/root/.vp/EVIDENCE.schema.json") else json.load(open(os.path.join(VERIF, "hgsim", "EVIDENCE.schema.json")))
            jsonschema.validate(ev, schema)
        except ImportError:
            pass
        with open(os.path.join(EVIDENCE_DIR, "%s.json" % prop), "w") as f:
            json.dump(ev, f, indent=1, sort_keys=True, default=str)
    if not quiet:
        for ln in lines:
            print(ln)
        print("%s %s: %d runs (%d non-trivial, %d distinct shapes, %d schedules), %d events, faults=%s, %.1fs, "
              "violations=%d known=%d%s" % (prop, tier, agg["evaluations"], agg["nontrivial"], len(shapes),
                                          len(schedules), agg["events"], json.dumps(agg["faults"], sort_keys=True),
                                          wall, len(reported), len(known_hit),
                                          (" probe_stuck=%s" % (stuck + stuck_probes)) if (stuck or stuck_probes) else ""))
    return (1 if reported else 0), ev
