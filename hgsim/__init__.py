"""hgsim -- deterministic simulation with fault injection for histogrammar-python.

See /verif/DESIGN.md.  Everything here is a pure function of (case JSON, code of
/repo): no clock, no id(), no hash() of objects, no unordered iteration reaches
a decision or a log line.
"""
import os
import sys

REPO = os.environ.get("VERIF_REPO", "/repo")
VERIF = os.path.dirname(os.path.dirname(os.path.abspath(__file__)))


def import_library():
    """Import histogrammar from REPO's working tree and refuse anything else."""
    os.environ.setdefault("TQDM_DISABLE", "1")
    if REPO not in sys.path:
        sys.path.insert(0, REPO)
    import warnings

    warnings.simplefilter("ignore")
    import numpy

    numpy.seterr(all="ignore")
    import histogrammar  # noqa

    here = os.path.realpath(os.path.dirname(histogrammar.__file__))
    want = os.path.realpath(os.path.join(REPO, "histogrammar"))
    if here != want:
        raise RuntimeError("histogrammar resolved to %s, expected %s" % (here, want))
    return histogrammar
