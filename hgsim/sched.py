"""Seeded discrete-event scheduler used by the case generators.

Events are (time, seq, actor, payload); ties at one instant are broken by the
'schedule' PRNG stream, not by insertion order.  The library has no clock: time
only produces arrival orders."""
import heapq


class Sched:
    def __init__(self, rng):
        self.rng = rng
        self.now = 0
        self.seq = 0
        self.q = []

    def after(self, delay, actor, payload=None):
        self.seq += 1
        # the random tiebreak is drawn when the event is queued, so it is part of the seed-determined schedule
        heapq.heappush(self.q, (self.now + max(0, int(delay)), self.rng.random(), self.seq, actor, payload))

    def pop(self):
        t, _, seq, actor, payload = heapq.heappop(self.q)
        self.now = t
        return t, seq, actor, payload

    def __len__(self):
        return len(self.q)
