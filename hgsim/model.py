"""Reference model: the Histogrammar semantics of a tree spec on a multiset of
(record, weight), evaluated with exact rational arithmetic (DESIGN.md 4.2).

Stateless; returns the same shape as observe.normalise(h.toJson()).  Used only
in the dyadic regime (see spec.py), where every index computation and every sum
of weights is exact in binary floating point, so exact fields can be compared
with ==.
"""
import math
from fractions import Fraction

from .observe import normalise
from .spec import quantity_name

LONG_MINUSINF = -9223372036854775807
LONG_PLUSINF = 9223372036854775807
VERSION = "1.1"


def F(x):
    import numpy as np

    if isinstance(x, (bool, np.bool_)):
        return Fraction(int(x))
    if isinstance(x, np.integer):
        return Fraction(int(x))
    if isinstance(x, np.floating):
        return Fraction(float(x))
    return Fraction(x)


INEXACT = [0]  # how many values of the last model_doc were not floating-point numbers (the nearest one was delivered)


def fl(x, rounded=False):
    """Fraction -> nearest float.  ``rounded``: a mean or variance - quotients are compared within a bound anyway and do
    not say anything about the sums"""
    if isinstance(x, Fraction):
        v = x.numerator / x.denominator
        if not rounded and not (math.isinf(v) or Fraction(v) == x):
            INEXACT[0] += 1
        return v
    return x


def _spread(weights):
    """bits between the highest bit of the total and the lowest bit of any (dyadic) weight"""
    tot = sum(weights, Fraction(0))
    if tot <= 0:
        return 0
    hi = tot.numerator.bit_length() - tot.denominator.bit_length()
    lo = hi
    for w in weights:
        n, d = w.numerator, w.denominator
        if d & (d - 1):
            return 10 ** 6  # not dyadic
        lo = min(lo, (n & -n).bit_length() - d.bit_length())
    return hi - lo


def qval(q, rec):
    if q.get("kind") == "unweighted":
        return 1.0
    f = q["f"]
    if f == "xy":
        return (rec["x"], rec["y"])
    if f == "xyc":
        return (rec["x"], rec["y"], rec["c"])
    return rec[f]


def isnan(v):
    return isinstance(v, float) and v != v


def model_doc(spec, items):
    """items: list of (record, weight).  Weights <= 0 or NaN are dropped (fill ignores them)."""
    live = [(r, F(w)) for r, w in items if isinstance(w, (int, float)) and w > 0]
    # "exact" means: every sum the library forms is a floating-point number.  A history that spreads its weights over more
    # than 52 bits (1 + 2**-30 scaled by 2**-20, then by 3 twice, next to weights of 4) leaves that regime: its sums are
    # rounded, in an order the model does not follow.  INEXACT tells the caller to compare sums within the rounding bound.
    INEXACT[0] = 1 if _spread([w for _, w in live if w != math.inf]) > 52 else 0
    return normalise({"type": spec["p"], "data": ev(spec, live, False), "version": VERSION})


def _named(frag, spec, suppress):
    nm = quantity_name(spec.get("q"))
    if not suppress and nm is not None:
        frag["name"] = nm
    return frag


def _child(spec, slot):
    c = spec.get(slot)
    return c if c is not None else {"p": "Count"}


def _subname(frag, key, child):
    nm = quantity_name(child.get("q"))
    if nm is not None:
        frag[key] = nm
    return frag


def _moments(spec, items):
    """(entries, weighted sum | nan | +-inf, mean, variance) with the documented non-finite rules."""
    q = spec["q"]
    vals = [(qval(q, r), w) for r, w in items]
    n = sum((w for _, w in vals), Fraction(0))
    has_nan = any(isnan(v) for v, _ in vals)
    has_p = any(v == math.inf for v, _ in vals)
    has_m = any(v == -math.inf for v, _ in vals)
    if has_nan or (has_p and has_m):
        return n, math.nan, math.nan, math.nan
    if has_p or has_m:
        inf = math.inf if has_p else -math.inf
        return n, inf, inf, math.nan
    s = sum((F(v) * w for v, w in vals), Fraction(0))
    if n == 0:
        return n, s, math.nan, math.nan
    mean = s / n
    var = sum((w * (F(v) - mean) ** 2 for v, w in vals), Fraction(0)) / n
    return n, s, mean, var


def _bagkey(range_, v):
    if range_ == "S":
        return v
    if range_ == "N":
        v = float(v)
        return "nan" if v != v else v
    return tuple("nan" if float(t) != float(t) else float(t) for t in v)


def _bag_sort(range_, keys):
    if range_ == "S":
        return sorted(keys)
    if range_ == "N":
        return sorted(k for k in keys if k != "nan") + (["nan"] if "nan" in keys else [])

    def sk(t):
        return tuple((1, 0.0) if x == "nan" else (0, x) for x in t)

    return sorted(keys, key=sk)


def ev(spec, items, suppress):
    p = spec["p"]
    ent = sum((w for _, w in items), Fraction(0))
    if p == "Count":
        if spec.get("transform") == "sq":
            return fl(sum((w * w for _, w in items), Fraction(0)))
        return fl(ent)
    if p == "Sum":
        n, s, _, _ = _moments(spec, items)
        return _named({"entries": fl(n), "sum": fl(s)}, spec, suppress)
    if p == "Average":
        n, _, m, _ = _moments(spec, items)
        return _named({"entries": fl(n), "mean": fl(m, True)}, spec, suppress)
    if p == "Deviate":
        n, _, m, v = _moments(spec, items)
        return _named({"entries": fl(n), "mean": fl(m, True), "variance": fl(v, True)}, spec, suppress)
    if p in ("Minimize", "Maximize"):
        vals = [qval(spec["q"], r) for r, _ in items]
        vals = [v for v in vals if not isnan(v)]
        if not vals:
            ext = math.nan
        else:
            ext = min(vals) if p == "Minimize" else max(vals)
        return _named({"entries": fl(ent), "min" if p == "Minimize" else "max": float(ext)}, spec, suppress)
    if p == "Bag":
        acc = {}
        for r, w in items:
            k = _bagkey(spec["range"], qval(spec["q"], r))
            acc[k] = acc.get(k, Fraction(0)) + w
        vals = [{"w": fl(acc[k]), "v": list(k) if isinstance(k, tuple) else k} for k in _bag_sort(spec["range"], list(acc))]
        return _named({"entries": fl(ent), "values": vals, "range": spec["range"]}, spec, suppress)
    if p == "Bin":
        num, low, high = spec["num"], spec["low"], spec["high"]
        vs, un, ov, na = [[] for _ in range(num)], [], [], []
        for r, w in items:
            x = qval(spec["q"], r)
            if isnan(x):
                na.append((r, w))
            elif x < low:
                un.append((r, w))
            elif x >= high:
                ov.append((r, w))
            else:
                i = math.floor(num * (F(x) - F(low)) / (F(high) - F(low)))
                vs[i].append((r, w))
        v, u, o, n = (_child(spec, s) for s in ("value", "underflow", "overflow", "nanflow"))
        frag = {
            "low": float(low), "high": float(high), "entries": fl(ent),
            "values:type": v["p"], "values": [ev(v, b, True) for b in vs],
            "underflow:type": u["p"], "underflow": ev(u, un, False),
            "overflow:type": o["p"], "overflow": ev(o, ov, False),
            "nanflow:type": n["p"], "nanflow": ev(n, na, False),
        }
        return _named(_subname(frag, "values:name", v), spec, suppress)
    if p == "SparselyBin":
        bw, orig = spec["binWidth"], spec["origin"]
        bins, na = {}, []
        for r, w in items:
            x = qval(spec["q"], r)
            if isnan(x):
                na.append((r, w))
                continue
            if x == math.inf:
                i = LONG_PLUSINF
            elif x == -math.inf:
                i = LONG_MINUSINF
            else:
                soft = (F(x) - F(orig)) / F(bw)
                i = LONG_MINUSINF if soft <= LONG_MINUSINF else LONG_PLUSINF if soft >= LONG_PLUSINF else math.floor(soft)
            bins.setdefault(i, []).append((r, w))
        v, n = _child(spec, "value"), _child(spec, "nanflow")
        frag = {
            "binWidth": float(bw), "entries": fl(ent), "bins:type": v["p"],
            "bins": {str(i): ev(v, b, True) for i, b in bins.items()},
            "nanflow:type": n["p"], "nanflow": ev(n, na, False), "origin": float(orig),
        }
        return _named(_subname(frag, "bins:name", v), spec, suppress)
    if p == "CentrallyBin":
        cs = sorted(float(c) for c in spec["centers"])
        bins, na = [[] for _ in cs], []
        for r, w in items:
            x = qval(spec["q"], r)
            if isnan(x):
                na.append((r, w))
                continue
            idx = len(cs) - 1
            for i in range(len(cs) - 1):
                mid = (F(cs[i]) + F(cs[i + 1])) / 2
                if (x == -math.inf) or (x != math.inf and F(x) < mid):
                    idx = i
                    break
            bins[idx].append((r, w))
        v, n = _child(spec, "value"), _child(spec, "nanflow")
        frag = {
            "entries": fl(ent), "bins:type": v["p"],
            "bins": [{"center": c, "data": ev(v, b, True)} for c, b in zip(cs, bins)],
            "nanflow:type": n["p"], "nanflow": ev(n, na, False),
        }
        return _named(_subname(frag, "bins:name", v), spec, suppress)
    if p in ("IrregularlyBin", "Stack"):
        es = [-math.inf] + [float(e) for e in spec["edges" if p == "IrregularlyBin" else "thresholds"]]
        bins, na = [[] for _ in es], []
        for r, w in items:
            x = qval(spec["q"], r)
            if isnan(x):
                na.append((r, w))
                continue
            if p == "Stack":
                for i, e in enumerate(es):
                    if x >= e:
                        bins[i].append((r, w))
            else:
                for i, e in enumerate(es):
                    hi = es[i + 1] if i + 1 < len(es) else None
                    if x >= e and (hi is None or not x >= hi):
                        bins[i].append((r, w))
                        break
        v, n = _child(spec, "value"), _child(spec, "nanflow")
        frag = {
            "entries": fl(ent), "bins:type": v["p"],
            "bins": [{"atleast": e, "data": ev(v, b, True)} for e, b in zip(es, bins)],
            "nanflow:type": n["p"], "nanflow": ev(n, na, False),
        }
        return _named(_subname(frag, "bins:name", v), spec, suppress)
    if p == "Categorize":
        bins = {}
        for r, w in items:
            k = qval(spec["q"], r)
            if k is None or isnan(k):
                k = "NaN"
            bins.setdefault(k, []).append((r, w))
        v = _child(spec, "value")
        frag = {"entries": fl(ent), "bins:type": v["p"], "bins": {k: ev(v, b, True) for k, b in bins.items()}}
        return _named(_subname(frag, "bins:name", v), spec, suppress)
    if p in ("Select", "Fraction"):
        passed = []
        for r, w in items:
            c = qval(spec["q"], r)
            if isnan(c) or (isinstance(c, float) and math.isinf(c)):
                continue
            ww = F(c) * w
            if ww > 0:
                passed.append((r, ww))
        if p == "Select":
            c = _child(spec, "cut")
            return _named({"entries": fl(ent), "sub:type": c["p"], "data": ev(c, passed, False)}, spec, suppress)
        v = _child(spec, "value")
        frag = {"entries": fl(ent), "sub:type": v["p"], "numerator": ev(v, passed, True), "denominator": ev(v, items, True)}
        return _named(_subname(frag, "sub:name", v), spec, suppress)
    if p == "Label":
        kids = spec["pairs"]
        first = next(iter(kids.values()))
        return {"entries": fl(ent), "sub:type": first["p"], "data": {k: ev(c, items, False) for k, c in kids.items()}}
    if p == "UntypedLabel":
        return {"entries": fl(ent), "data": {k: {"type": c["p"], "data": ev(c, items, False)} for k, c in spec["pairs"].items()}}
    if p == "Index":
        return {"entries": fl(ent), "sub:type": spec["values"][0]["p"], "data": [ev(c, items, False) for c in spec["values"]]}
    if p == "Branch":
        return {"entries": fl(ent), "data": [{"type": c["p"], "data": ev(c, items, False)} for c in spec["values"]]}
    raise ValueError(p)
