"""Sensitivity self-test: a catalogue of small source mutants per property
(DESIGN.md Appendix D).  Each mutant is applied to a scratch copy of
/repo/histogrammar under /tmp (removed immediately afterwards), the property's
check is pointed at it with VERIF_REPO and must report a violation within the
given number of runs; the unmodified copy must pass.

Run:  bin/check selftest mutants [--props C01,C05]
"""
import os
import shutil
import subprocess
import sys
import tempfile

from . import REPO, VERIF

P = "histogrammar/primitives/"

# (property, label, file, old, new, runs)
CATALOGUE = [
    # ---- C01
    ("C01", "Bin.__add__ drops other.nanflow", P + "bin.py", "self.nanflow + other.nanflow,", "self.nanflow,", 1500),
    ("C01", "SparselyBin.__add__ overwrites a common key", P + "sparselybin.py",
     "out.bins[i] = v + other.bins[i] if i in other.bins else v.copy()", "out.bins[i] = other.bins[i].copy() if i in other.bins else v.copy()", 2500),
    ("C01", "Average.__add__ loses the empty-side short-circuit", P + "average.py",
     "            if self.entries == 0.0:\n                out.mean = other.mean\n            elif other.entries == 0.0:\n                out.mean = self.mean\n            else:",
     "            if True:", 1500),
    ("C01", "minplus returns NaN when one side is NaN", "histogrammar/util.py",
     "    if math.isnan(x):\n        return y\n    if math.isnan(y) or x < y:\n        return x\n    return y",
     "    if math.isnan(x) or math.isnan(y):\n        return float(\"nan\")\n    if x < y:\n        return x\n    return y", 2500),
    ("C01", "Categorize.__add__ uses key intersection", P + "categorize.py", "for k in self.keySet.union(other.keySet):\n                if k in self.bins and k in other.bins:\n                    out.bins[k] = self.bins[k] + other.bins[k]",
     "for k in self.keySet.intersection(other.keySet):\n                if k in self.bins and k in other.bins:\n                    out.bins[k] = self.bins[k] + other.bins[k]", 2500),
    ("C01", "SparselyBin.zero() drops origin", P + "sparselybin.py",
     "return self._likeSelf(SparselyBin(self.binWidth, self.quantity, self.value, self.nanflow.zero(), self.origin))",
     "return self._likeSelf(SparselyBin(self.binWidth, self.quantity, self.value, self.nanflow.zero()))", 2500),
    ("C01", "Deviate.__add__ forgets a cross term", P + "deviate.py", "+ other.entries * other.mean * other.mean", "+ other.entries * other.mean", 2500),
    # ---- C02
    ("C02", "Bin.over uses >", P + "bin.py", "return not math.isnan(x) and x >= self.high", "return not math.isnan(x) and x > self.high", 1500),
    ("C02", "CentrallyBin.index ties go down", P + "centrallybin.py", "if x < (thisCenter + nextCenter) / 2.0:", "if x <= (thisCenter + nextCenter) / 2.0:", 2500),
    ("C02", "Stack.fill uses q > threshold", P + "stack.py", "if q >= threshold:", "if q > threshold:", 2500),
    ("C02", "Select.fill adds w instead of weight", P + "select.py", "                self.cut.fill(datum, w)\n            # no possibility of exception from here on out (for rollback)\n            self.entries += weight",
     "                self.cut.fill(datum, w)\n            # no possibility of exception from here on out (for rollback)\n            self.entries += w", 2500),
    ("C02", "Deviate.fill uses delta*delta", P + "deviate.py", "self.varianceTimesEntries += weight * delta * (q - self.mean)", "self.varianceTimesEntries += weight * delta * delta", 1500),
    ("C02", "Categorize.fill gates on weight >= 0", P + "categorize.py", "        if weight > 0.0:\n            q = self.quantity(datum)\n            if isinstance(q, (basestring, bool, np.bool_)):",
     "        if weight >= 0.0:\n            q = self.quantity(datum)\n            if isinstance(q, (basestring, bool, np.bool_)):", 2500),
    ("C02", "Minimize overwritten by NaN", P + "minmax.py", "            replace = math.isnan(self.min) or q < self.min", "            replace = math.isnan(self.min) or math.isnan(q) or q < self.min", 2500),
    # ---- C03
    ("C03", "Bin._numpy overflow mask uses less_equal", P + "bin.py", "np.less(q, self.high, selection)", "np.less_equal(q, self.high, selection)", 2500),
    ("C03", "Sum._numpy adds the row count to entries", P + "sum.py", "self.entries += float(weights.sum())", "self.entries += float(len(weights))", 2500),
    ("C03", "CentrallyBin._numpy generic path uses greater for the upper edge", P + "centrallybin.py",
     "                    np.less(q, low, selection)\n                    np.greater_equal(q, high, selection2)", "                    np.less(q, low, selection)\n                    np.greater(q, high, selection2)", 4000),
    ("C03", "Select._numpy keeps negative products", P + "select.py", "        w[w < 0.0] = 0.0\n\n        self.cut._numpy(data, w, shape)", "        self.cut._numpy(data, w, shape)", 4000),
    ("C03", "Bin._numpy writes into the caller's array", P + "bin.py", "        q = np.array(q, dtype=np.float64)\n        q[selection] = self.high", "        q[selection] = self.high", 4000),
    # ---- C04
    ("C04", "Bin.toJsonFragment drops values:name", P + "bin.py", "\"values:name\": binsName,", "\"values:name\": None,", 2000),
    ("C04", "SparselyBin.fromJsonFragment ignores origin", P + "sparselybin.py", "                origin = json[\"origin\"]\n", "                origin = 0.0\n", 2000),
    ("C04", "floatToJson lets +inf through", "histogrammar/util.py", "    if math.isinf(x) and x > 0.0:\n        return \"inf\"\n    if math.isinf(x):\n        return \"-inf\"\n    return x",
     "    if math.isinf(x) and x < 0.0:\n        return \"-inf\"\n    return x", 2000),
    ("C04", "Categorize.ed forgets contentType", P + "categorize.py", "        out.contentType = contentType\n        return out.specialize()", "        return out.specialize()", 3000),
    # ---- C05
    ("C05", "Bin.fill does not count NaN data in entries", P + "bin.py", "            elif self.nan(q):\n                self.nanflow.fill(datum, weight)\n            else:",
     "            elif self.nan(q):\n                self.nanflow.fill(datum, weight)\n                return\n            else:", 1500),
    ("C05", "SparselyBin._numpy adds the row count", P + "sparselybin.py", "        newentries = weights.sum()\n\n        selection = np.isnan(q)", "        newentries = len(weights)\n\n        selection = np.isnan(q)", 2500),
    ("C05", "Bag._update counts entries only for new keys", P + "bag.py", "        self.entries += weight\n        if q in self.values:\n            self.values[q] += weight\n        else:\n            self.values[q] = weight",
     "        if q in self.values:\n            self.values[q] += weight\n        else:\n            self.entries += weight\n            self.values[q] = weight", 1500),
    ("C05", "Bin.bin clamp removed", P + "bin.py", "return min(int(math.floor(self.num * (x - self.low) / (self.high - self.low))), self.num - 1)",
     "return int(math.floor(self.num * (x - self.low) / (self.high - self.low)))", 6000),
    # ---- C06
    ("C06", "Categorize.__add__ drops the copy of one-sided bins", P + "categorize.py", "                    out.bins[k] = self.bins[k].copy()", "                    out.bins[k] = self.bins[k]", 2500),
    ("C06", "Bin.__init__ keeps underflow by reference", P + "bin.py", "        self.underflow = underflow.copy()", "        self.underflow = underflow", 2500),
    ("C06", "Container.copy returns self", "histogrammar/defs.py", "        return self + self.zero()", "        return self", 1500),
    ("C06", "Bag.__add__ aliases self.values", P + "bag.py", "            out.values = dict(self.values)", "            out.values = self.values", 2500),
    ("C06", "Select default cut shared again", P + "select.py", "            cut = Count()\n", "            cut = _SHARED\n", 2500),
    # ---- C07
    ("C07", "Sum.__iadd__ assigns other's sum", P + "sum.py", "        self.sum = both.sum\n", "        self.sum = other.sum\n", 1500),
    ("C07", "SparselyBin.__iadd__ adopts the operand's bins", P + "sparselybin.py", "        self.bins = both.bins\n        self.nanflow = both.nanflow", "        self.bins = other.bins if not self.bins else both.bins\n        self.nanflow = both.nanflow", 2500),
    ("C07", "Bin.__iadd__ skips overflow", P + "bin.py", "        self.overflow = both.overflow\n", "", 2500),
    ("C07", "Deviate.__iadd__ forgets varianceTimesEntries", P + "deviate.py", "        self.varianceTimesEntries = both.varianceTimesEntries\n", "", 2500),
    ("C07", "Branch.__iadd__ returns a new object", P + "collection.py", "        for i, x in enumerate(self.values):\n            setattr(self, \"i\" + str(i), x)\n        return self", "        return both", 2500),
    # ---- C08
    ("C08", "Deviate.__mul__ leaves varianceTimesEntries unscaled", P + "deviate.py", "out.varianceTimesEntries = factor * self.varianceTimesEntries", "out.varianceTimesEntries = self.varianceTimesEntries", 1500),
    ("C08", "Bag.__mul__ copies counts unscaled", P + "bag.py", "            out.values[value] = factor * count", "            out.values[value] = count", 1500),
    ("C08", "Bin.__mul__ lets a NaN factor through", P + "bin.py", "    def __mul__(self, factor):\n        if math.isnan(factor) or factor <= 0.0:\n            return self.zero()\n        out = self.zero()\n        out.entries = factor * self.entries\n        for i, v in enumerate(self.values):",
     "    def __mul__(self, factor):\n        if factor <= 0.0:\n            return self.zero()\n        out = self.zero()\n        out.entries = factor * self.entries\n        for i, v in enumerate(self.values):", 2500),
    ("C08", "Stack.__mul__ stores a list again", P + "stack.py", "out.bins = tuple((c, v * factor) for (c, v) in self.bins)", "out.bins = [(c, v * factor) for (c, v) in self.bins]", 2500),
    # ---- C09
    ("C09", "Bin.__eq__ stops comparing values", P + "bin.py", "            and self.values == other.values\n", "", 1500),
    ("C09", "numeq uses a fixed 1e-6 window", "histogrammar/util.py", "        return abs(x - y) <= absoluteTolerance\n    return x == y", "        return abs(x - y) <= absoluteTolerance\n    return abs(x - y) <= 1e-6", 1500),
    ("C09", "Categorize.__eq__ compares key sets", P + "categorize.py", "            and self.bins == other.bins", "            and set(self.bins) == set(other.bins)", 1500),
    ("C09", "Average.__eq__ ignores mean", P + "average.py", "            and numeq(self.mean, other.mean)\n", "", 1500),
    # ---- C10
    ("C10", "Bin.__add__ loses the low check", P + "bin.py", "            if self.low != other.low:\n                raise ContainerException(f\"cannot add Bins because low differs ({self.low} vs {other.low})\")\n", "", 1500),
    ("C10", "SparselyBin.__add__ loses the origin check", P + "sparselybin.py", "            if self.origin != other.origin:", "            if False:", 1500),
    ("C10", "Bag.__add__ loses the range check", P + "bag.py", "            if self.range != other.range:\n                raise", "            if False:\n                raise", 1500),
    ("C10", "Label.__add__ loses the key-set check", P + "collection.py", "        if isinstance(other, Label):\n            if self.keySet != other.keySet:", "        if isinstance(other, Label):\n            if False:", 2500),
    ("C10", "sparse content check removed", P + "categorize.py", "            self._checkContent(other)\n", "", 1500),
    # ---- C11
    ("C11", "Container.__setstate__ does not rebuild fill", "histogrammar/defs.py", "        self.__dict__ = dict\n        self.fill = FillMethod(self, self.fill)", "        self.__dict__ = dict\n        self.fill = self.fill", 1500),
    ("C11", "deserializeFunction drops __defaults__", "histogrammar/util.py", "out.expr = types.FunctionType(marshal.loads(__code__), g, __name__, __defaults__, __closure__)",
     "out.expr = types.FunctionType(marshal.loads(__code__), g, __name__, None, __closure__)", 1500),
    ("C11", "__getstate__ also drops entries of Count", "histogrammar/defs.py", "        for s in [\"fill\", \"plot\"]:", "        for s in [\"fill\", \"plot\", \"_checkedForCrossReferences\", \"nanflow\"]:", 1500),
    # ---- C12
    ("C12", "Sum.fill counts before evaluating the quantity", P + "sum.py", "        if weight > 0.0:\n            q = self.quantity(datum)\n", "        if weight > 0.0:\n            self.entries += weight\n            q = self.quantity(datum)\n            self.entries -= weight\n", 800),
    ("C12", "Select.fill counts before cut.fill", P + "select.py", "            w *= weight\n\n            if w > 0.0:\n                self.cut.fill(datum, w)\n            # no possibility of exception from here on out (for rollback)\n            self.entries += weight",
     "            w *= weight\n            self.entries += weight\n            if w > 0.0:\n                self.cut.fill(datum, w)", 800),
    ("C12", "Categorize.fill inserts the bin first again", P + "categorize.py", "                sub = self.value.zero()\n                sub.fill(datum, weight)\n", "                sub = self.value.zero()\n                self.bins[q] = sub\n                sub.fill(datum, weight)\n", 800),
    # ---- C14
    ("C14", "process_features works on the caller's frame", "histogrammar/dfinterface/pandas_histogrammar.py", "].copy()\n", "]\n        idf = df\n", 400),
    ("C14", "get_features_specs returns empty bin_specs", "histogrammar/dfinterface/histogram_filler_base.py", "        return features, self.bin_specs, self.var_dtype, self.time_axis", "        return features, {}, self.var_dtype, self.time_axis", 400),
    ("C14", "auto binning recomputed although the feature has specs", "histogrammar/dfinterface/histogram_filler_base.py", "            if n in bs_keys:\n                # already provided; will pick that one up\n                continue\n", "", 400),
    ("C14", "nested histograms built in the wrong axis order", "histogrammar/dfinterface/pandas_histogrammar.py", "        revcols = list(reversed(features))", "        revcols = list(features)", 400),
    # ---- C15
    ("C15", "Bin.fromJsonFragment accepts a non-list values", P + "bin.py", "            if isinstance(json[\"values\"], list):\n                values = [valuesFactory.fromJsonFragment(x, valuesName) for x in json[\"values\"]]\n            else:\n                raise JsonFormatException(json, \"Bin.values\")",
     "            values = [valuesFactory.fromJsonFragment(x, valuesName) for x in (json[\"values\"] if isinstance(json[\"values\"], list) else [0.0])]", 600),
    ("C15", "hasKeys accepts unknown keys", "histogrammar/util.py", "    return required.issubset(test) and test.issubset(required.union(optional))", "    return required.issubset(test)", 600),
    ("C15", "Count.ed accepts negative entries", P + "count.py", "        if entries < 0.0:\n            raise ValueError(f\"entries ({entries}) cannot be negative\")\n        out = Count()", "        out = Count()", 600),
    ("C15", "Factory.fromJson skips the version test", "histogrammar/defs.py", "                if not histogrammar.version.compatible(json[\"version\"]):", "                if False:", 600),
    ("C15", "Branch skips malformed elements again", P + "collection.py", "                    else:\n                        raise JsonFormatException(x, f\"Branch.data {i}\")\n", "", 600),
    # ---- C16
    ("C16", "the walk consults the children's flags again", "histogrammar/defs.py", "        top = memo is None\n        if top:\n            if self._checkedForCrossReferences:\n                return\n            memo = set()",
     "        top = memo is None\n        if self._checkedForCrossReferences:\n            return\n        if top:\n            memo = set()", 3000),
    ("C16", "templates are walked too", "histogrammar/defs.py", "            if child is not None and child is not template:", "            if child is not None:", 3000),
    ("C16", "flag set before the walk", "histogrammar/defs.py", "            memo = set()\n        if id(self) in memo:", "            memo = set()\n            self._checkedForCrossReferences = True\n        if id(self) in memo:", 3000),
    # ---- C17
    ("C17", "CachedFcn keys its memo on the number of arguments only", "histogrammar/util.py", "            return pickle.dumps((args, sorted(kwds.items())), protocol=pickle.HIGHEST_PROTOCOL)\n", "            return pickle.dumps((len(args), sorted(kwds)))\n", 1500),
    ("C17", "named() on a CachedFcn returns a plain UserFcn", "histogrammar/util.py", "    if isinstance(fcn, CachedFcn):\n        return CachedFcn(fcn.expr, name)", "    if isinstance(fcn, CachedFcn):\n        return UserFcn(fcn.expr, name)", 1500),
    ("C17", "string expressions keep the namespace of the first datum", "histogrammar/util.py", "                def function(datum):\n                    context = dict(globals())",
     "                _ctx = {}\n\n                def function(datum):\n                    context = _ctx if _ctx else dict(globals())\n                    _ctx.update(context)", 2500),
    ("C17", "CachedFcn keys its memo on == of the arguments (types, signed zeros, in-place reuse)", "histogrammar/util.py", "        if key is not None and key == getattr(self, \"lastKey\", None):\n", "        if getattr(self, \"_la\", None) is not None and self._la == (args, kwds):\n            return pickle.loads(self.lastReturn)\n        self._la = (args, kwds)\n        if False:\n", 4000),
    # round 3: single-site versions of what the independent seeded changes of that round needed
    ("C09", "Stack.__eq__ compares thresholds with == (NaN thresholds of Stack.build)", "histogrammar/primitives/stack.py",
     "numeq(c1, c2) and v1 == v2", "c1 == c2 and v1 == v2", 4000),
    ("C09", "numeq compares single-precision roundings", "histogrammar/util.py", "    return x == y\n", "    return np.float32(x) == np.float32(y)\n", 8000),
    ("C10", "SparselyBin.__add__ compares binWidth with numeq (tolerance knob)", "histogrammar/primitives/sparselybin.py",
     "            if self.binWidth != other.binWidth:", "            if not numeq(self.binWidth, other.binWidth):", 5000),
    ("C17", "named() renames a CachedFcn in place", "histogrammar/util.py", "    if isinstance(fcn, CachedFcn):\n        return CachedFcn(fcn.expr, name)",
     "    if isinstance(fcn, CachedFcn):\n        fcn.name = name\n        return fcn", 1500),
    ("C06", "named() renames a CachedFcn in place (seen by the alias hunt)", "histogrammar/util.py",
     "    if isinstance(fcn, CachedFcn):\n        return CachedFcn(fcn.expr, name)", "    if isinstance(fcn, CachedFcn):\n        fcn.name = name\n        return fcn", 16000),
    ("C17", "CachedFcn keys its memo on the identity of its arguments (buffer reuse)", "histogrammar/util.py", "        key = self._key(args, kwds)\n        if key is not None", "        key = self._key(tuple(id(a) for a in args), kwds)\n        if key is not None", 4000),
    ("C17", "CachedFcn memoises a call that raised", "histogrammar/util.py", "        result = super().__call__(*args, **kwds)\n        if key is not None:", "        self.lastKey = key\n        result = super().__call__(*args, **kwds)\n        if key is not None:", 6000),
    ("C14", "Select.fill.numpy cleans the cut before weighting it (inf * 0)", "histogrammar/primitives/select.py",
     "        w = w * weights\n        w[numpy.isnan(w)] = 0.0\n        w[w < 0.0] = 0.0\n",
     "        w = numpy.array(w, dtype=numpy.float64)\n        w[numpy.isnan(w)] = 0.0\n        w[w < 0.0] = 0.0\n        w = w * weights\n", 2000),
    ("C02", "TwoDimensionallySparselyHistogram uses xorigin for y", "histogrammar/convenience.py", "Count.ing(), Count.ing(), yorigin)", "Count.ing(), Count.ing(), xorigin)", 16000),
    ("C06", "Bin shares the underflow template passed to its constructor", "histogrammar/primitives/bin.py", "        self.underflow = underflow.copy()",
     "        self.underflow = underflow if type(underflow).__name__ == 'Bag' else underflow.copy()", 16000),
    ("C16", "a reloaded root is never walked for cross references", "histogrammar/defs.py",
     "            return Factory.registered[name].fromJsonFragment(json[\"data\"], None)",
     "            out = Factory.registered[name].fromJsonFragment(json[\"data\"], None)\n            out._checkedForCrossReferences = True\n            return out", 20000),
    ("C12", "string expressions keep the fields of earlier records", "histogrammar/util.py", "                def function(datum):\n                    context = dict(globals())",
     "                context = dict(globals())\n\n                def function(datum):", 6000),
]


def apply(scratch, rel, old, new):
    path = os.path.join(scratch, rel)
    s = open(path).read()
    if s.count(old) != 1:
        return False
    open(path, "w").write(s.replace(old, new))
    return True


def run_check(prop, scratch, runs, seed=0):
    env = dict(os.environ)
    env["VERIF_REPO"] = scratch
    env["VERIF_SEED"] = str(seed)
    p = subprocess.run([sys.executable, "-m", "hgsim.cli", "check", prop, "--tier", "quick", "--runs", str(runs), "--no-evidence"],
                       cwd=VERIF, env=env, capture_output=True, text=True, timeout=1200)
    return p.returncode, p.stdout + p.stderr


def main(props):
    bad = 0
    n = 0
    for prop, label, rel, old, new, runs in CATALOGUE:
        if props and prop not in props:
            continue
        n += 1
        scratch = tempfile.mkdtemp(prefix="hgsim-scratch-")
        try:
            shutil.copytree(os.path.join(REPO, "histogrammar"), os.path.join(scratch, "histogrammar"))
            if rel.endswith("select.py") and "_SHARED" in new:
                # helper for the "shared default" mutant
                s = open(os.path.join(scratch, rel)).read()
                s = s.replace("class Select(Factory, Container):", "_SHARED = Count()\n\n\nclass Select(Factory, Container):", 1)
                open(os.path.join(scratch, rel), "w").write(s)
            if not apply(scratch, rel, old, new):
                print("mutant NOT-APPLICABLE %s: %s (pattern not found exactly once in %s)" % (prop, label, rel))
                bad += 1
                continue
            code, out = run_check(prop, scratch, runs)
            sigs = [ln.strip().split(" ")[0] for ln in out.splitlines() if ln.strip().startswith("signature=")]
            if code == 1:
                print("mutant CAUGHT   %s: %s  [%s]" % (prop, label, ", ".join(sigs[:3])))
            else:
                bad += 1
                print("mutant MISSED   %s: %s  (exit %d in %d runs)\n%s" % (prop, label, code, runs, out[-600:]))
        finally:
            shutil.rmtree(scratch, ignore_errors=True)
    print("mutants: %d tried, %d missed or not applicable" % (n, bad))
    return bad
