"""Command line: check / replay / selftest.  Exit 0 held, 1 violation, 3 harness error."""
import argparse
import os
import sys
import traceback


def _reexec():
    if os.environ.get("PYTHONHASHSEED") != "0" or os.environ.get("HGSIM_REEXEC") != "1":
        env = dict(os.environ)
        env["PYTHONHASHSEED"] = os.environ.get("HGSIM_HASHSEED", "0")
        env["HGSIM_REEXEC"] = "1"
        env["TQDM_DISABLE"] = "1"
        env.setdefault("OMP_NUM_THREADS", "1")
        env.setdefault("OPENBLAS_NUM_THREADS", "1")
        os.execve(sys.executable, [sys.executable, "-m", "hgsim.cli"] + sys.argv[1:], env)


def main():
    ap = argparse.ArgumentParser(prog="check")
    sub = ap.add_subparsers(dest="cmd")
    c = sub.add_parser("check")
    c.add_argument("prop")
    c.add_argument("--tier", default=os.environ.get("VERIF_TIER", "quick"), choices=["quick", "thorough"])
    c.add_argument("--seed", type=int, default=None)
    c.add_argument("--runs", type=int, default=None)
    c.add_argument("--workers", type=int, default=int(os.environ.get("HGSIM_WORKERS", "16")))
    c.add_argument("--no-evidence", action="store_true")
    r = sub.add_parser("replay")
    r.add_argument("path")
    r.add_argument("--quiet", action="store_true")
    s = sub.add_parser("selftest")
    s.add_argument("what", choices=["determinism", "replay", "mutants", "grammar", "all"])
    s.add_argument("--props", default="")
    s.add_argument("--n", type=int, default=None)
    args = ap.parse_args()
    _reexec()
    from . import import_library
    from .kernel import HarnessError

    try:
        import_library()
        if args.cmd == "check":
            from . import engine

            seed = args.seed if args.seed is not None else int(os.environ.get("VERIF_SEED", "0") or 0)
            code, _ = engine.check(args.prop.upper(), args.tier, seed, workers=args.workers, budget=args.runs,
                                   write_evidence=not args.no_evidence)
            sys.exit(code)
        elif args.cmd == "replay":
            from . import engine

            ok, res, doc = engine.replay_file(args.path)
            v = res.get("violation")
            if ok:
                print("REPRODUCED %s digest=%s" % (v["signature"], res.get("digest")))
                if not args.quiet:
                    print(v["message"])
                    print("VIOLATION property=%s replay=%s" % (doc["property"], args.path))
                sys.exit(1)
            print("NOT-REPRODUCED: expected %s digest=%s, got %s digest=%s" % (
                doc["violation"]["signature"], doc.get("digest"), v and v["signature"], res.get("digest")))
            sys.exit(0 if v is None else 2)
        elif args.cmd == "selftest":
            from . import selftest

            sys.exit(selftest.main(args))
        else:
            ap.print_help()
            sys.exit(3)
    except HarnessError as e:
        print("HARNESS-ERROR: %s" % e)
        sys.exit(3)
    except SystemExit:
        raise
    except BaseException:
        print("HARNESS-ERROR: unexpected exception in the machinery")
        traceback.print_exc()
        sys.exit(3)


if __name__ == "__main__":
    main()
