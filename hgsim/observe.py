"""Observation of an aggregator: the normalised toJson() document (DESIGN.md 4.1)."""
import hashlib
import json
import math

import numpy as np

from . import grammar


def normalise(x):
    """ints -> floats, numpy scalars -> python, -0.0 -> 0.0; NaN/inf stay as the
    strings the library emits.  Dict key order is irrelevant to == and to the hash."""
    if isinstance(x, bool):
        return x
    if isinstance(x, (np.floating, np.integer)):
        x = x.item()
    if isinstance(x, (int, float)):
        x = float(x)
        if x != x:
            return "nan"
        if x == math.inf:
            return "inf"
        if x == -math.inf:
            return "-inf"
        if x == 0.0:
            return 0.0
        return x
    if isinstance(x, dict):
        return {str(k): normalise(v) for k, v in x.items()}
    if isinstance(x, (list, tuple)):
        return [normalise(v) for v in x]
    if isinstance(x, np.str_):
        return str(x)
    return x


def observe(h):
    return normalise(h.toJson())


def dumps(doc):
    return json.dumps(doc, sort_keys=True, allow_nan=False)


def obs_hash(doc):
    return hashlib.sha256(dumps(doc).encode()).hexdigest()[:16]


# --------------------------------------------------------------------------- tolerant comparison

ROUNDED = {"mean", "variance"}


class Tol:
    """Comparison regime.  exact: every field must be identical.  Otherwise fields in
    ``rounded`` (and, when ``sums`` is set, all accumulated sums) may differ by
    the bound derived from the run."""

    def __init__(self, n=0, scale=1.0, sums=False, exact=False):
        self.exact = exact
        self.n = max(1, n)
        self.scale = scale
        self.sums = sums

    def close(self, field, a, b):
        if a == b:
            return True
        if self.exact:
            return False
        if not (grammar.is_num(a) and grammar.is_num(b)):
            return False
        x, y = grammar.num(a), grammar.num(b)
        if self.scale > 1e100 and (field in ROUNDED or self.sums):
            return True  # astronomically large data (1e300 probes): rounded fields overflow and carry no information
        if math.isnan(x) or math.isnan(y) or math.isinf(x) or math.isinf(y):
            return (math.isnan(x) and math.isnan(y)) or x == y
        eps = 2.0 ** -52
        if field == "variance":
            bound = 64 * eps * self.n * (1 + self.scale) ** 2
        elif field == "mean":
            bound = 64 * eps * self.n * (1 + self.scale)
        elif self.sums:
            bound = 64 * eps * self.n * (1 + self.scale) * max(1.0, abs(x), abs(y))
        else:
            return False
        return abs(x - y) <= bound


EXACT = Tol(exact=True)


def diff_shallow(ptype, a, b, path=()):
    """Like diff (exact), but reports the *shallowest* differing node: own fields before children.
    Used for failure-atomicity violations, where the interesting node is the one whose merge started."""
    if ptype == "Count":
        return None if a == b else (list(path), ptype, "entries")
    if not isinstance(a, dict) or not isinstance(b, dict):
        return None if a == b else (list(path), ptype, "shape")
    g = grammar.G.get(ptype)
    if g is None:
        return None if a == b else (list(path), ptype, "shape")
    for k in sorted(set(a) | set(b)):
        d = g["req"].get(k) or g["opt"].get(k)
        kind = d[0] if d else "other"
        if kind in ("frag", "list", "map", "tagged") and not (kind == "list" and d[1][0] == "obj"):
            continue
        if kind == "list":
            ea = [{kk: e.get(kk) for kk in d[1][1] if d[1][1][kk][0] == "num"} for e in a.get(k, [])]
            eb = [{kk: e.get(kk) for kk in d[1][1] if d[1][1][kk][0] == "num"} for e in b.get(k, [])]
            if ea != eb:
                return (list(path), ptype, k)
            continue
        if a.get(k) != b.get(k):
            return (list(path), ptype, k)
    try:
        ca = grammar.children(ptype, a)
        cb = grammar.children(ptype, b)
    except (KeyError, TypeError, AttributeError):
        return (list(path), ptype, "shape")
    if [(p, t) for p, t, _ in ca] != [(p, t) for p, t, _ in cb]:
        pa = [(p, t) for p, t, _ in ca]
        pb = [(p, t) for p, t, _ in cb]
        for p, t in pa + pb:
            if (p, t) not in pa or (p, t) not in pb:
                return (list(path), ptype, str(p[0]))
        return (list(path), ptype, "structure")
    for (p, t, fa), (_, _, fb) in zip(ca, cb):
        d = diff_shallow(t, fa, fb, tuple(path) + tuple(p))
        if d is not None:
            return d
    return None


def diff(ptype, a, b, tol=EXACT, path=()):
    """First (deepest-first) difference between two fragments of the same declared type.

    Returns None when they agree, else (path, primitive, field).  Children are
    visited before the node's own fields so that the deepest differing node, all of
    whose children agree, is the one reported."""
    if ptype == "Count":
        return None if tol.close("entries", a, b) else (list(path), ptype, "entries")
    if not isinstance(a, dict) or not isinstance(b, dict):
        return None if a == b else (list(path), ptype, "shape")
    g = grammar.G.get(ptype)
    if g is None:
        return None if a == b else (list(path), ptype, "shape")
    # type fields first: if a child type differs the walk cannot be aligned
    for k in sorted(set(a) | set(b)):
        if k.endswith(":type") and a.get(k) != b.get(k):
            return (list(path), ptype, k)
    try:
        ca = grammar.children(ptype, a)
        cb = grammar.children(ptype, b)
    except (KeyError, TypeError, AttributeError):
        return (list(path), ptype, "shape")
    pa = [(p, t) for p, t, _ in ca]
    pb = [(p, t) for p, t, _ in cb]
    if pa != pb:
        fld = "structure"
        for p, t in pa + pb:
            if (p, t) not in pa or (p, t) not in pb:
                fld = str(p[0])
                break
        return (list(path), ptype, fld)
    for (p, t, fa), (_, _, fb) in zip(ca, cb):
        d = diff(t, fa, fb, tol, tuple(path) + tuple(p))
        if d is not None:
            return d
    # own fields
    for k in sorted(set(a) | set(b)):
        if k not in a or k not in b:
            return (list(path), ptype, k)
        d = g["req"].get(k) or g["opt"].get(k)
        kind = d[0] if d else "other"
        if kind in ("num", "entries"):
            if not tol.close(k, a[k], b[k]):
                return (list(path), ptype, k)
        elif kind == "bagvalues":
            if len(a[k]) != len(b[k]):
                return (list(path), ptype, "values")
            for ea, eb in zip(a[k], b[k]):
                if ea["v"] != eb["v"] or not tol.close("w", ea["w"], eb["w"]):
                    return (list(path), ptype, "values")
        elif kind == "list" and d[1][0] == "obj":
            for ea, eb in zip(a[k], b[k]):
                for kk, dd in d[1][1].items():
                    if dd[0] == "num" and ea.get(kk) != eb.get(kk):
                        return (list(path), ptype, kk)
        elif kind in ("frag", "list", "map", "tagged"):
            pass
        elif a[k] != b[k]:
            return (list(path), ptype, k)
    return None


def doc_diff(a, b, tol=EXACT):
    """Difference between two full documents (with header)."""
    if a.get("type") != b.get("type"):
        return ([], a.get("type"), "type")
    return diff(a["type"], a["data"], b["data"], tol)


def same(a, b, tol=EXACT):
    if tol.exact:
        return a == b
    return doc_diff(a, b, tol) is None


def drop_empty(ptype, frag):
    """Remove sparse bins / categories whose whole subtree holds zero weight (C03)."""
    import copy

    frag = copy.deepcopy(frag)
    for path, t, f in list(grammar.walk(ptype, frag)):
        if t in ("SparselyBin", "Categorize") and isinstance(f, dict):
            bt = f["bins:type"]
            for k in sorted(f["bins"]):
                if grammar.entries_of(bt, f["bins"][k]) == 0.0 and _all_zero(bt, f["bins"][k]):
                    del f["bins"][k]
    return frag


def _all_zero(ptype, frag):
    for _, t, f in grammar.walk(ptype, frag):
        if grammar.entries_of(t, f) != 0.0:
            return False
        if t == "Bag" and f["values"]:
            return False
    return True
