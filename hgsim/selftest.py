"""Self-tests of the machinery: determinism, replay, grammar, sensitivity (mutants)."""
import json
import os
import subprocess
import sys

from . import VERIF
from .engine import load_scenario, one_run
from .rng import Rng

ALL_PROPS = ["C01", "C02", "C03", "C04", "C05", "C06", "C07", "C08", "C09", "C10", "C11", "C12", "C14", "C15", "C16",
             "C17"]


def available():
    out = []
    for p in ALL_PROPS:
        if os.path.exists(os.path.join(VERIF, "hgsim", "scenarios", p.lower() + ".py")):
            out.append(p)
    return out


def digests(prop, n, tier="quick", seed=0):
    scen = load_scenario(prop)
    out = []
    for i in range(n):
        case, res = one_run(scen, tier, seed, i)
        v = res.get("violation")
        out.append((i, res["digest"], v["signature"] if v else None))
    return out


def determinism(props, n):
    bad = 0
    for prop in props:
        a = digests(prop, n)
        b = digests(prop, n)
        same_proc = a == b
        # replay of its own recorded case: execute twice from the JSON round trip of the case
        scen = load_scenario(prop)
        rep_ok = True
        for i in range(min(n, 50)):
            case, res = one_run(scen, "quick", 0, i)
            case2 = json.loads(json.dumps(case))
            res2 = scen.execute(case2)
            if res2["digest"] != res["digest"]:
                rep_ok = False
                print("  replay divergence %s index %d" % (prop, i))
                break
        # fresh interpreters under two hash seeds
        outs = []
        for hs in ("0", "1"):
            env = dict(os.environ)
            env["PYTHONHASHSEED"] = hs
            env["HGSIM_REEXEC"] = "1"
            p = subprocess.run([sys.executable, "-c",
                                "import sys,json; sys.path.insert(0, %r); import hgsim; hgsim.import_library(); "
                                "from hgsim import selftest; print(json.dumps(selftest.digests(%r, %d)))" % (VERIF, prop, n)],
                               env=env, capture_output=True, text=True, cwd=VERIF, timeout=1200)
            if p.returncode != 0:
                print(p.stderr[-2000:])
                outs.append(None)
            else:
                outs.append([tuple(x) for x in json.loads(p.stdout.strip().splitlines()[-1])])
        fresh = outs[0] == a
        hashseed = outs[1] == a
        ok = same_proc and fresh and hashseed and rep_ok
        print("determinism %s: n=%d same-process=%s replay-of-own-steps=%s fresh-interpreter=%s PYTHONHASHSEED=1=%s -> %s" % (
            prop, n, same_proc, rep_ok, fresh, hashseed, "OK" if ok else "DIVERGED"))
        if not ok:
            bad += 1
            for x, y in zip(a, outs[1] or []):
                if x != y:
                    print("   first divergence:", x, y)
                    break
    return bad


def workers_determinism(props, n):
    from . import engine

    bad = 0
    for prop in props:
        _, e1 = engine.check(prop, "quick", 0, workers=1, budget=n, write_evidence=False, quiet=True)
        _, e16 = engine.check(prop, "quick", 0, workers=16, budget=n, write_evidence=False, quiet=True)
        ok = e1["coverage"]["batch_digest"] == e16["coverage"]["batch_digest"]
        print("determinism %s: 1 worker vs 16 workers, %d runs -> %s" % (prop, n, "OK" if ok else "DIVERGED"))
        bad += 0 if ok else 1
    return bad


def grammar_selftest(n=300):
    """every document the library emits is inside the hand-written grammar"""
    from . import grammar, observe, spec as specmod

    bad = 0
    for seed in range(n):
        r = Rng(seed)
        sp = specmod.gen_spec(r.fork("tree"))
        h = specmod.build(sp)
        crit = specmod.critical_values(sp)
        d = r.fork("data")
        for _ in range(d.randint(0, 15)):
            h.fill(specmod.gen_record(d, crit), d.pick(specmod.POS_WEIGHTS))
        doc = observe.observe(h)
        if not grammar.valid_document(doc):
            bad += 1
            print("grammar rejects a library document:", json.dumps(doc)[:300])
    print("grammar: %d documents, %d rejected" % (n, bad))
    return bad


def main(args):
    props = [p.upper() for p in args.props.split(",") if p] or available()
    bad = 0
    if args.what in ("determinism", "all"):
        bad += determinism(props, args.n or 200)
        bad += workers_determinism(props, args.n or 200)
    if args.what in ("grammar", "all"):
        bad += grammar_selftest()
    if args.what in ("mutants", "all"):
        from . import mutants

        bad += mutants.main(props)
    return 3 if bad else 0
