"""Tree specs: generation, construction of real histogrammar objects, alphabets.

A spec is plain JSON so that it can live in a replay file.  ``build`` always goes
through the public constructors of the library.
"""
import math

from . import gate

LEAVES = ["Count", "Sum", "Average", "Deviate", "Minimize", "Maximize", "Bag"]
SINGLE = ["Bin", "SparselyBin", "CentrallyBin", "IrregularlyBin", "Categorize", "Select"]
FANOUT = ["Stack", "Fraction", "Label", "UntypedLabel", "Index", "Branch"]
ALL = LEAVES + SINGLE + FANOUT
NUMERIC_Q = ["Sum", "Average", "Deviate", "Minimize", "Maximize", "Bin", "SparselyBin", "CentrallyBin",
             "IrregularlyBin", "Stack"]
HAS_Q = NUMERIC_Q + ["Bag", "Categorize", "Select", "Fraction"]

DEFAULT_OPTS = {
    "prims": ALL,
    "depth": 4,
    "max_nodes": 24,
    "regime": "dyadic",
    "qkinds": [("lambda", 6), ("named", 2), ("def", 1)],
    "p_default": 0.35,  # probability that an optional child slot is omitted (default argument used)
    "max_num": 8,
    "max_coll": 3,
    "bag_ranges": ["N", "S", "N2", "N3"],
    "cut_fields": ["c", "b"],
    "root": None,  # force a root primitive
    "count_transform": 0.0,
    "count_same_transform": 0.0,
}


def merge_opts(**kw):
    o = dict(DEFAULT_OPTS)
    o.update(kw)
    return o


# --------------------------------------------------------------------------- generation


class _Budget:
    def __init__(self, n):
        self.n = n


def _gen_q(rng, field, opts, counter):
    kind = rng.wpick(opts["qkinds"])
    if field in ("xy", "xyc") and kind in ("str", "selfc", "selfg", "selfk", "selfkw", "selfnest", "selfattr"):
        kind = "lambda"
    if kind in ("selfk", "selfattr") and field not in ("x", "y"):
        kind = "selfc"
    q = {"f": field, "kind": kind}
    if kind == "selfk":
        q["k"] = rng.pick([1, 1.0, True, 0.0, -0.0, 0.0, -0.0])  # equal under ==, not the same default
    if kind == "str" and opts.get("str_plain"):
        q["expr"] = field
    elif kind == "str":
        if field in ("x", "y"):
            q["expr"] = rng.pick([field, field, "%s + 1" % field, "2 * %s" % field, "%s - 0.5" % field])
        elif field == "c":
            q["expr"] = rng.pick(["c", "c * 1"])
        else:
            q["expr"] = field
    if kind in ("named", "cached_named"):
        counter[0] += 1
        q["name"] = "q%d_%s" % (counter[0], field)
        if rng.chance(opts.get("awkward_names", 0.05)):
            # names named() accepts and the format can carry: the empty string, a name with spaces / a colon / unicode
            q["name"] = rng.pick(["", " ", "a:b", "x y", "name", "\u00e9nergie"])
    elif kind == "def":
        counter[0] += 1
        q["name"] = "fn%d_%s" % (counter[0], field)
    return q


def _dy(rng, lo, hi, step):
    """a multiple of ``step`` in [lo, hi]"""
    n0 = int(math.ceil(lo / step))
    n1 = int(math.floor(hi / step))
    return rng.randint(n0, n1) * step


def _gen_params(rng, p, opts):
    dy = opts["regime"] == "dyadic"
    out = {}
    if p == "Bin":
        num = rng.pick([1, 2, 3, 4, 5, 8][: max(1, min(6, opts["max_num"]))])
        num = min(num, opts["max_num"])
        if opts.get("big_bins") and rng.chance(opts["big_bins"]):
            num = rng.pick([256, 300])  # a histogram large enough for size-dependent fast paths
        if dy:
            low = _dy(rng, -2.0, 2.0, 0.25)
            bw = rng.pick([0.25, 0.5, 1.0, 2.0])
            high = low + num * bw
        else:
            low = rng.pick([0.0, 0.1, -0.3, 1.0 / 3.0, 1e6, -1e6, 123456.789, 1e-3, -7.7])
            bw = rng.pick([0.1, 1.0 / 3.0, 0.7, 0.01, 1e-3, 3.3, 0.2, 0.6])
            if rng.chance(0.5):
                high = low + num * bw
            else:
                high = low + rng.pick([0.7, 1.0, 0.1, 2.3, 1.0 / 3.0, 10.0])
        out.update(num=num, low=low, high=high)
    elif p == "SparselyBin":
        if dy:
            # (3, 5, 7, 49, 1.5, 2.5: not powers of two, yet every edge origin + k * width is exact and divides back exactly)
            out.update(binWidth=rng.pick([0.25, 0.5, 1.0, 2.0, 0.5, 1.0, 3.0, 5.0, 7.0, 49.0, 1.5, 2.5]), origin=_dy(rng, -2.0, 2.0, 0.25))
        else:
            out.update(binWidth=rng.pick([0.1, 1.0 / 3.0, 0.7, 0.01, 3.3, 0.2]),
                       origin=rng.pick([0.0, 0.1, -0.3, 1e6, -1e6, 1.0 / 3.0, 0.05]))
    elif p == "CentrallyBin":
        n = rng.randint(2, 5)
        if dy:
            cs = sorted(set(_dy(rng, -4.0, 4.0, 0.5) for _ in range(n + 2)))
        else:
            cs = sorted(set(rng.pick([-1e6, -3.3, -0.1, 0.0, 0.1, 0.3, 1.0 / 3.0, 0.7, 1.1, 2.5, 1e6]) for _ in range(n + 2)))
        while len(cs) < 2:
            cs.append(cs[-1] + 1.0)
        cs = cs[: max(2, n)]
        if rng.chance(0.3):
            cs = list(reversed(cs))  # the constructor sorts
        out.update(centers=cs)
    elif p in ("IrregularlyBin", "Stack"):
        n = rng.randint(1, 4)
        if dy:
            es = sorted(set(_dy(rng, -3.0, 3.0, 0.25) for _ in range(n + 1)))[:n]
        else:
            es = sorted(set(rng.pick([-1e6, -3.3, -0.1, 0.0, 0.1, 0.3, 1.0 / 3.0, 0.7, 1.1, 2.5, 1e6]) for _ in range(n + 1)))[:n]
        if p == "Stack" and len(es) > 1 and rng.chance(0.2):
            # Stack neither sorts nor validates its thresholds: every cut is tested on its own
            es = list(reversed(es)) if rng.chance(0.5) else es[1:] + es[:1]
        out["edges" if p == "IrregularlyBin" else "thresholds"] = es
    elif p == "Bag":
        out["range"] = rng.pick(opts["bag_ranges"])
    return out


def _field_for(rng, p, params, opts):
    if p == "Bag":
        return {"N": rng.pick(["x", "y"]), "S": "t", "N2": "xy", "N3": "xyc"}[params["range"]]
    if p == "Categorize":
        return "b" if rng.chance(opts.get("bool_categories", 0.12)) else "s"  # boolean categories are allowed as well
    if p in ("Select", "Fraction"):
        return rng.pick(opts["cut_fields"])
    return rng.pick(["x", "x", "y"])


AWKWARD_LABELS = ["entries", "pairsAsDict", "data", "type", "name", "values", "sub:type", "k 0", "", "0"]


def _label_name(rng, i):
    """label i of a Label / UntypedLabel: mostly k<i>, sometimes a name that collides with a keyword or a format key"""
    if rng.chance(0.06):
        return AWKWARD_LABELS[i % len(AWKWARD_LABELS)] if i else rng.pick(AWKWARD_LABELS)
    return "k%d" % i


def gen_spec(rng, opts=None, depth=None, budget=None, counter=None, force=None):
    opts = opts or DEFAULT_OPTS
    if depth is None:
        depth = opts["depth"]
    if budget is None:
        budget = _Budget(opts["max_nodes"])
    if counter is None:
        counter = [0]
    prims = opts["prims"]
    leaves = [p for p in prims if p in LEAVES] or ["Count"]
    if force is None and opts.get("root") and depth == opts["depth"]:
        force = opts["root"]
    if force is not None:
        p = force
    elif depth <= 1 or budget.n <= 1:
        p = rng.pick(leaves)
    else:
        containers = [q for q in prims if q not in LEAVES]
        if containers and rng.chance(0.72):
            p = rng.pick(containers)
        else:
            p = rng.pick(leaves)
    budget.n -= 1
    s = {"p": p}
    if p == "Count":
        if opts["count_transform"] and rng.chance(opts["count_transform"]):
            s["transform"] = "sq"
        elif opts.get("count_same_transform") and rng.chance(opts["count_same_transform"]):
            # a user-supplied transform that returns its argument: same content as a plain Count, but not the
            # library's own `identity` object, so none of the `transform is identity` shortcuts is taken
            s["transform"] = "same"
        return s
    params = _gen_params(rng, p, opts)
    s.update(params)
    if opts.get("p_via", 0.3) and rng.chance(opts.get("p_via", 0.3)):
        # build through the `ing` synonym or, where the shape allows it, a convenience constructor
        s["via"] = rng.pick(["ing", "conv"])
    if p in HAS_Q:
        s["q"] = _gen_q(rng, _field_for(rng, p, params, opts), opts, counter)

    if p in LEAVES:
        return s

    def child(optional=True, force=None):
        if optional and (rng.chance(opts["p_default"]) or budget.n <= 0):
            return None
        return gen_spec(rng, opts, depth - 1, budget, counter, force)

    if p in ("Bin", "SparselyBin") and s.get("via") == "conv" and depth > 1 and budget.n > 0 and rng.chance(0.6):
        # the shape the two-dimensional convenience constructors exist for: a plain histogram of the same kind below
        k = gen_spec(rng, opts, 1, _Budget(1), counter, force=p)
        budget.n -= 1
        k.pop("via", None)
        for slot in ("value", "underflow", "overflow", "nanflow"):
            if slot in k or slot in ("value", "nanflow"):
                k[slot] = None
        s["value"] = k
        for slot in (("underflow", "overflow", "nanflow") if p == "Bin" else ("nanflow",)):
            s[slot] = None
    elif p == "Bin":
        s["value"] = child()
        for slot in ("underflow", "overflow", "nanflow"):
            s[slot] = child() if rng.chance(0.5) else None
    elif p in ("SparselyBin", "CentrallyBin", "IrregularlyBin", "Stack"):
        s["value"] = child()
        s["nanflow"] = child() if rng.chance(0.5) else None
    elif p in ("Categorize", "Fraction"):
        s["value"] = child()
    elif p == "Select":
        s["cut"] = child()
    elif p in ("Label", "Index"):
        n = rng.randint(1, opts["max_coll"])
        first = child(optional=False)
        kids = [first]
        for _ in range(n - 1):
            if budget.n <= 0:
                break
            k = gen_spec(rng, opts, depth - 1, budget, counter, force=first["p"])
            if first["p"] == "Bag":
                # same range, and therefore a field of the same kind
                k["range"] = first["range"]
                k["q"] = _gen_q(rng, first["q"]["f"] if first["range"] != "N" else rng.pick(["x", "y"]), opts, counter)
            kids.append(k)
        if p == "Label":
            s["pairs"] = {_label_name(rng, i): k for i, k in enumerate(kids)}
        else:
            s["values"] = kids
    elif p in ("UntypedLabel", "Branch"):
        n = rng.randint(1, opts["max_coll"])
        kids = [child(optional=False)]
        for _ in range(n - 1):
            if budget.n <= 0:
                break
            kids.append(child(optional=False))
        if p == "UntypedLabel":
            s["pairs"] = {_label_name(rng, i): k for i, k in enumerate(kids)}
        else:
            s["values"] = kids
    return s


# --------------------------------------------------------------------------- traversal


def child_slots(s):
    """[(slotname, childspec)] in a fixed order (None children skipped)."""
    p = s["p"]
    out = []
    if "explicit" in s:
        # IrregularlyBin / Stack given explicit (edge, aggregator) pairs and value=None
        return [("explicit:%d" % i, c) for i, (_, c) in enumerate(s["explicit"])]
    if p == "Bin":
        names = ["value", "underflow", "overflow", "nanflow"]
    elif p in ("SparselyBin", "CentrallyBin", "IrregularlyBin", "Stack"):
        names = ["value", "nanflow"]
    elif p in ("Categorize", "Fraction"):
        names = ["value"]
    elif p == "Select":
        names = ["cut"]
    elif p in ("Label", "UntypedLabel"):
        return [("pairs:" + k, v) for k, v in s["pairs"].items()]
    elif p in ("Index", "Branch"):
        return [("values:%d" % i, v) for i, v in enumerate(s["values"])]
    else:
        names = []
    for n in names:
        if s.get(n) is not None:
            out.append((n, s[n]))
    return out


def walk(s, path=()):
    """Preorder (path, spec) pairs; the index in this order is the node id."""
    yield path, s
    for name, c in child_slots(s):
        yield from walk(c, path + (name,))


def nodes(s):
    return [{"id": i, "p": sp["p"], "path": list(path), "f": (sp.get("q") or {}).get("f"), "spec": sp}
            for i, (path, sp) in enumerate(walk(s))]


def count_nodes(s):
    return sum(1 for _ in walk(s))


def prims_used(s):
    return sorted(set(sp["p"] for _, sp in walk(s)))


def shape_key(s):
    """Structure without numbers or names: used to count distinct tree shapes."""
    p = s["p"]
    kids = ",".join("%s=%s" % (n.split(":")[0], shape_key(c)) for n, c in child_slots(s))
    extra = ""
    if p == "Bag":
        extra = s["range"]
    return "%s%s(%s)" % (p, extra, kids)


# --------------------------------------------------------------------------- build


def _mk_q(q, node, qreg=None):
    import histogrammar as hg
    from histogrammar.util import cached, named

    if q["kind"] == "shared":
        # one wrapper object used by several nodes / trees (C17): mode "cached" or "plain"
        key = (q["id"], q.get("mode", "cached"))
        if key not in qreg:
            if q.get("fn") == "sign":
                # a function that tells 0.0 from -0.0 (and works on scalars and arrays alike)
                import numpy

                fn = eval('lambda d: _gate(%d, _np.copysign(1.0, d["%s"]))' % (1000 + q["id"], q["f"]), {"_gate": gate._gate, "_np": numpy})
            else:
                fn = gate.make_lambda(1000 + q["id"], q["f"])
            qreg[key] = cached(fn) if q.get("mode", "cached") == "cached" else fn
        return qreg[key]
    if q["kind"] == "expr":
        # C17: a string expression, or the equivalent Python function built from the same AST
        from .scenarios.c17 import expr_function, expr_source

        return expr_source(q["ast"]) if q.get("mode", "str") == "str" else expr_function(q["ast"])

    kind = q["kind"]
    f = q["f"]
    if kind == "unweighted":
        from histogrammar.defs import unweighted

        return unweighted
    if kind == "lambda":
        return gate.make_lambda(node, f)
    if kind == "named":
        return named(q["name"], gate.make_lambda(node, f))
    if kind == "def":
        return gate.make_def(node, f, q["name"])
    if kind == "cached":
        return cached(gate.make_lambda(node, f))
    if kind == "cached_named":
        return named(q["name"], cached(gate.make_lambda(node, f)))
    if kind == "str":
        return q.get("expr", f)
    if kind == "selfc":
        # self-contained lambda: the field it reads is a default argument, so every such quantity shares one code
        # object (the loop idiom `[Sum(lambda d, f=f: d[f]) for f in fields]`)
        return eval('lambda d, f=%r: getattr(d[f], "values", d[f])' % f, {})
    if kind == "selfk":
        # same code object again, the default is a number: 1, 1.0 and True compare equal but are not the same default
        # (an integer column times 1 stays integer, times 1.0 it becomes float)
        # (one source text for all of them - `[Minimize(lambda d, k=k: d[F] * k) for k in scales]` - so the code objects are
        # byte-identical and only the default differs)
        return eval('lambda d, k=K: getattr(d[F], "values", d[F]) * k', {"K": q.get("k", 1), "F": f, "getattr": getattr})
    if kind == "selfkw":
        # the loop idiom again, the bound value a keyword-only default (`lambda d, *, f=f: d[f]`)
        return eval('lambda d, *, f=%r: getattr(d[f], "values", d[f])' % f, {})
    if kind == "selfnest":
        # the global is only read inside a nested scope (an inner lambda here; a generator expression does the same)
        return eval('lambda d: (lambda: getattr(d[FIELD], "values", d[FIELD]))()', {"FIELD": f, "getattr": getattr})
    if kind == "selfattr":
        # reads an *attribute* called `math` (of a picklable default argument): attribute names and the names of globals
        # share co_names, and `math` happens to be a global of the module that rebuilds the function
        import types as _types

        return eval('lambda d, f=%r, o=O: getattr(d[f], "values", d[f]) * o.math' % f, {"O": _types.SimpleNamespace(math=1.0)})
    if kind == "selfg":
        # the field it reads is a global of the function: same code object, different referenced globals
        return eval('lambda d: getattr(d[FIELD], "values", d[FIELD])', {"FIELD": f, "getattr": getattr})
    if kind == "column":
        from .scenarios.sparkfake import Column

        return Column(f)
    raise ValueError(kind)


def quantity_name(q):
    """The name the serialised form must carry for this quantity (None if unnamed)."""
    if q is None:
        return None
    k = q["kind"]
    if k in ("named", "def", "cached_named"):
        return q["name"]
    if k == "str":
        return q.get("expr", q["f"])
    if k == "column":
        return q["f"]
    if k == "unweighted":
        return "unweighted"
    return None


def build(s, _ctr=None, refs=None, qreg=None):
    """Real histogrammar object for a spec, through the public constructors.

    ``refs`` maps names to already built objects; a node ``{"p": "ref", "name": N}`` is replaced by that very
    object (used by C16 to install one aggregator at two positions)."""
    import histogrammar as hg

    if _ctr is None:
        _ctr = [0]
    if s["p"] == "ref":
        return refs[s["name"]]
    node = _ctr[0]
    _ctr[0] += 1
    p = s["p"]
    if p == "Count":
        if s.get("transform") == "sq" and s.get("tq"):
            # C17: one (cached or plain) transform object shared by several Counts
            from histogrammar.util import cached as _cached

            key = ("t", s["tq"]["id"], s["tq"].get("mode", "cached"))
            if key not in qreg:
                fn = eval("lambda w: w * w", {})
                qreg[key] = _cached(fn) if s["tq"].get("mode", "cached") == "cached" else fn
            return hg.Count(qreg[key])
        if s.get("transform") == "sq":
            return hg.Count(eval("lambda w: w * w", {}))
        if s.get("transform") == "same":
            return hg.Count(eval("lambda w: w", {}))
        return hg.Count()
    q = _mk_q(s["q"], node, qreg) if "q" in s else None
    kw = {}
    for name, c in child_slots(s):
        if ":" not in name:
            kw[name] = build(c, _ctr, refs, qreg)
    if "explicit" in s:
        pairs = [(dec_float(e), build(c, _ctr, refs, qreg)) for e, c in s["explicit"]]
        return getattr(hg, p)(pairs, q, None)
    via = s.get("via")
    if via == "conv":
        # convenience constructors cover only certain shapes; fall back to `ing` otherwise
        plain = all(s.get(k) is None for k in ("underflow", "overflow", "nanflow"))
        v = s.get("value")
        def _plain_count_bin(x):
            return x is not None and x["p"] == "Bin" and x.get("value") is None and all(x.get(k) is None for k in ("underflow", "overflow", "nanflow"))

        def _plain_count_sparse(x):
            return x is not None and x["p"] == "SparselyBin" and x.get("value") is None and x.get("nanflow") is None

        if p == "Bin" and plain and _plain_count_bin(v) and len(kw) == 1:
            return hg.TwoDimensionallyHistogram(s["num"], s["low"], s["high"], q, v["num"], v["low"], v["high"], kw["value"].quantity)
        if p == "SparselyBin" and plain and _plain_count_sparse(v) and len(kw) == 1:
            return hg.TwoDimensionallySparselyHistogram(s["binWidth"], q, v["binWidth"], kw["value"].quantity, s["origin"], v["origin"])
        if p == "Select" and _plain_count_bin(s.get("cut")):
            c = s["cut"]
            from histogrammar.convenience import HistogramCut

            return HistogramCut(c["num"], c["low"], c["high"], kw["cut"].quantity, q)
        if p == "Categorize" and v is None:
            from histogrammar.convenience import CategorizeHistogram

            return CategorizeHistogram(q)
        if p == "Bin" and plain and v is None:
            return hg.Histogram(s["num"], s["low"], s["high"], q)
        if p == "SparselyBin" and plain and v is None:
            return hg.SparselyHistogram(s["binWidth"], q, s["origin"])
        if p == "Bin" and plain and v is not None and v["p"] in ("Average", "Deviate") and len(kw) == 1:
            inner = kw["value"].quantity
            return (hg.Profile if v["p"] == "Average" else hg.ProfileErr)(s["num"], s["low"], s["high"], q, inner)
        if p == "SparselyBin" and plain and v is not None and v["p"] in ("Average", "Deviate") and len(kw) == 1:
            inner = kw["value"].quantity
            return (hg.SparselyProfile if v["p"] == "Average" else hg.SparselyProfileErr)(s["binWidth"], q, inner, s["origin"])
        via = "ing"
    if via == "ing" and p in ("Sum", "Average", "Deviate", "Minimize", "Maximize", "Bin", "SparselyBin", "CentrallyBin", "IrregularlyBin", "Stack",
                              "Categorize", "Select", "Fraction"):
        Count = hg.Count
        if p in ("Sum", "Average", "Deviate", "Minimize", "Maximize"):
            return getattr(hg, p).ing(q)
        if p == "Bin":
            return hg.Bin.ing(s["num"], s["low"], s["high"], q, kw.get("value", Count()), kw.get("underflow", Count()), kw.get("overflow", Count()),
                              kw.get("nanflow", Count()))
        if p == "SparselyBin":
            return hg.SparselyBin.ing(s["binWidth"], q, kw.get("value", Count()), kw.get("nanflow", Count()), s["origin"])
        if p == "CentrallyBin":
            return hg.CentrallyBin.ing(list(s["centers"]), q, kw.get("value", Count()), kw.get("nanflow", Count()))
        if p == "IrregularlyBin":
            return hg.IrregularlyBin.ing(list(s["edges"]), q, kw.get("value", Count()), kw.get("nanflow", Count()))
        if p == "Stack":
            return hg.Stack.ing(list(s["thresholds"]), q, kw.get("value", Count()), kw.get("nanflow", Count()))
        if p == "Categorize":
            return hg.Categorize.ing(q, kw.get("value", Count()))
        if p == "Select":
            return hg.Select.ing(q, kw["cut"]) if "cut" in kw else hg.Select.ing(q)
        if p == "Fraction":
            return hg.Fraction.ing(q, kw.get("value", Count()))
    if p in ("Sum", "Average", "Deviate", "Minimize", "Maximize"):
        return getattr(hg, p)(q)
    if p == "Bag":
        return hg.Bag(q, s["range"])
    if p == "Bin":
        return hg.Bin(s["num"], s["low"], s["high"], q, **kw)
    if p == "SparselyBin":
        return hg.SparselyBin(s["binWidth"], q, origin=s["origin"], **kw)
    if p == "CentrallyBin":
        return hg.CentrallyBin(list(s["centers"]), q, **kw)
    if p == "IrregularlyBin":
        return hg.IrregularlyBin(list(s["edges"]), q, **kw)
    if p == "Stack":
        return hg.Stack(list(s["thresholds"]), q, **kw)
    if p == "Categorize":
        return hg.Categorize(q, **kw)
    if p == "Select":
        return hg.Select(q, **kw)
    if p == "Fraction":
        return hg.Fraction(q, **kw)
    if p in ("Label", "UntypedLabel"):
        items = [(k, build(c, _ctr, refs, qreg)) for k, c in s["pairs"].items()]
        # the same directory may be written down in another order by another task (BUILD_OPTS is set by World.build)
        if BUILD_OPTS["label_order"] == "reversed":
            items.reverse()
        elif BUILD_OPTS["label_order"] == "sorted":
            items.sort(key=lambda kv: kv[0])
        return getattr(hg, p)(**dict(items))
    if p in ("Index", "Branch"):
        vals = [build(c, _ctr, refs, qreg) for c in s["values"]]
        return getattr(hg, p)(*vals)
    raise ValueError(p)


BUILD_OPTS = {"label_order": "spec"}
RECORD_KNOBS = {"int_column": None}  # set per run by the engine (swarm knob), read by gen_record


# --------------------------------------------------------------------------- alphabets


def _nearby(v, regime):
    if regime == "dyadic":
        return [v, v - 0.125, v + 0.125]
    out = [v]
    a = b = v
    for _ in range(3):
        a = math.nextafter(a, -math.inf)
        b = math.nextafter(b, math.inf)
        out += [a, b]
    return out


def critical_values(s, regime="dyadic"):
    """{'x': [...], 'y': [...]}: every edge / threshold / centre / midpoint of every
    binning node that reads the field, their neighbours, plus plain values."""
    out = {"x": [], "y": []}
    for _, sp in walk(s):
        q = sp.get("q")
        if not q or q["f"] not in ("x", "y"):
            continue
        vs = []
        p = sp["p"]
        if p == "Bin":
            n, lo, hi = sp["num"], sp["low"], sp["high"]
            for i in range(n + 1):
                e = lo + (hi - lo) * i / n
                vs += _nearby(e, regime)
                if i < n:
                    vs.append(lo + (hi - lo) * (i + 0.5) / n)
            vs += _nearby(hi, regime) + _nearby(lo, regime)
        elif p == "SparselyBin":
            for k in (-3, -2, -1, 0, 1, 2, 3, 7):
                e = sp["origin"] + k * sp["binWidth"]
                vs += _nearby(e, regime)
                vs.append(e + sp["binWidth"] / 2)
        elif p == "CentrallyBin":
            cs = sorted(sp["centers"])
            for c in cs:
                vs.append(c)
            for a, b in zip(cs[:-1], cs[1:]):
                vs += _nearby((a + b) / 2.0, regime)
        elif p == "IrregularlyBin":
            for e in sp["edges"]:
                vs += _nearby(e, regime)
        elif p == "Stack":
            for e in sp["thresholds"]:
                vs += _nearby(e, regime)
        out[q["f"]] += vs
    for f in out:
        seen = []
        for v in out[f]:
            if v not in seen:
                seen.append(v)
        out[f] = seen
    return out


PLAIN = [0.0, 0.5, 1.0, -1.0, 1.5, 2.25, -0.75, 3.0, -2.5, 0.125, 4.0, -4.0, 16.0, -16.0]
SPECIAL = [float("nan"), float("inf"), float("-inf")]
# categories: ordinary strings plus, rarely, names that collide with keyword parameters of ed() or with keys of the format
STRINGS = ["a", "b", "c", "dd", "e f", "Z"]
AWKWARD_STRINGS = ["entries", "contentType", "binsAsDict", "bins", "nan", "inf", "", "True", "0",
                   "caf\u00e9", "\u65e5\u672c", "caf\udce9.csv"]  # the last one is what os.fsdecode makes of a Latin-1 file name: a lone surrogate
CUTS = [True, False, 1.0, 0.0, 0.5, 2.0, -1.0, float("nan"), 0.25]
POS_WEIGHTS = [1.0, 1.0, 1.0, 0.5, 2.0, 0.25, 4.0, 1.5]
ODD_WEIGHTS = [0.0, -1.0, float("nan"), -0.5]
NEAR_ONE_WEIGHTS = [1.0, 1.0 + 2.0 ** -17, 1.0 - 2.0 ** -18, 1.0 + 2.0 ** -30]  # dyadic, closer to 1 than any sensible "is it 1?" tolerance


def gen_record(rng, crit, opts=None):
    opts = opts or {}
    p_special = opts.get("p_special", 0.12)
    p_crit = opts.get("p_crit", 0.55)
    rec = {}
    for f in ("x", "y"):
        r = rng.random()
        if r < p_special:
            v = rng.pick(SPECIAL)
        elif r < p_special + p_crit and crit[f]:
            v = rng.pick(crit[f])
        else:
            v = rng.pick(PLAIN)
        rec[f] = v
    if opts.get("exotic_types", True) and rng.chance(0.12):
        # the same value in another numeric type: quantities may return ints, bools and numpy scalars
        import numpy as np

        f = rng.pick(["x", "y"])
        v = rec[f]
        if isinstance(v, float) and v == v and abs(v) != math.inf:
            # (np.float32 is not used: a float32 quantity makes the library accumulate in single precision, which is
            # rounding, not a defect, and would need float32 tolerances)
            kind = rng.pick(["int", "npf64", "npi64", "bool", "negzero", "npi8", "npu8", "npi16", "npi32"])
            if kind == "int" and v == int(v):
                rec[f] = int(v)
            elif kind == "npf64":
                rec[f] = np.float64(v)
            elif kind == "npi64" and v == int(v):
                rec[f] = np.int64(int(v))
            elif kind in ("npi8", "npi16", "npi32") and v == int(v) and abs(v) < 100:
                # narrow integer types (image data, counters): differences and products of two of them overflow easily
                rec[f] = {"npi8": np.int8, "npi16": np.int16, "npi32": np.int32}[kind](int(v))
            elif kind == "npu8" and v == int(v) and 0 <= v < 200:
                rec[f] = np.uint8(int(v))
            elif kind == "npf32" and float(np.float32(v)) == v:
                rec[f] = np.float32(v)
            elif kind == "bool" and v in (0.0, 1.0):
                rec[f] = bool(v)
            elif kind == "negzero" and v == 0.0:
                rec[f] = -0.0
    if opts.get("big_dyadic") and rng.chance(opts["big_dyadic"]):
        # 2**24 among small values: exact in double precision, not in single precision (16777216 + 1 == 16777216 there)
        rec[rng.pick(["x", "y"])] = rng.pick([16777216.0, -16777216.0, 33554432.0])
    if opts.get("big_ints") and rng.chance(opts["big_ints"]):
        # a 64-bit identifier / nanosecond time stamp: an integer no double can hold exactly
        rec[rng.pick(["x", "y"])] = rng.pick([2 ** 53 + 1, 1700000000000000001, -(2 ** 60) - 7])
    col = RECORD_KNOBS.get("int_column")
    if col and opts.get("exotic_types", True):
        # the whole column x is integer-typed in this run (a uint8 image channel, an int16 ADC count, a Python int id)
        import numpy as np

        v = rec["x"]
        if isinstance(v, float) and v == v and abs(v) != math.inf and v == int(v):
            lo, hi, ty = {"npu8": (0, 255, np.uint8), "npi8": (-128, 127, np.int8), "npi16": (-2 ** 15, 2 ** 15 - 1, np.int16),
                          "npi64": (-2 ** 62, 2 ** 62, np.int64), "int": (-2 ** 62, 2 ** 62, int)}[col]
            if lo <= v <= hi:
                rec["x"] = ty(int(v))
    rec["c"] = rng.pick(CUTS[2:]) if opts.get("numeric_cuts") else rng.pick(CUTS)
    rec["b"] = rng.chance(0.6)
    awk = opts.get("awkward_strings", 0.06)
    rec["t"] = rng.pick(AWKWARD_STRINGS) if rng.chance(awk) else rng.pick(STRINGS)
    if rng.chance(awk):
        rec["s"] = rng.pick(AWKWARD_STRINGS)
    elif opts.get("no_none"):
        rec["s"] = rng.pick(STRINGS)
    else:
        rec["s"] = rng.pick(STRINGS + [None, float("nan")])
    return rec


def enc_float(v):
    import numpy as np

    if isinstance(v, np.generic):
        return {"np": type(v).__name__, "v": enc_float(v.item())}
    if isinstance(v, str) and v in ("nan", "inf", "-inf"):
        return {"str": v}  # a category that is spelled like a non-finite number, not the number
    if isinstance(v, float) and v == 0.0 and math.copysign(1.0, v) < 0:
        return {"np": "negzero", "v": 0.0}
    if isinstance(v, float):
        if v != v:
            return "nan"
        if v == math.inf:
            return "inf"
        if v == -math.inf:
            return "-inf"
    return v


def dec_float(v):
    if isinstance(v, dict) and "str" in v:
        return v["str"]
    if isinstance(v, dict) and "np" in v:
        import numpy as np

        if v["np"] == "negzero":
            return -0.0
        return getattr(np, v["np"])(dec_float(v["v"]))
    if v == "nan":
        return float("nan")
    if v == "inf":
        return math.inf
    if v == "-inf":
        return -math.inf
    return v


def enc_record(rec):
    return {k: enc_float(v) for k, v in rec.items()}


def dec_record(rec):
    out = {}
    for k, v in rec.items():
        if k == "s":
            out[k] = float("nan") if v == "nan" else dec_float(v) if isinstance(v, dict) else v
        else:
            out[k] = dec_float(v)
    return out


def use_unweighted(spec, rng, p=0.3):
    """Give some Selects the library's own constant selection (``histogrammar.defs.unweighted``, the default of
    HistogramCut): every datum passes with weight 1.  Only where the cut below evaluates a quantity itself - a constant
    says nothing about the number of rows of a batch."""
    for _, nd in walk(spec):
        if nd["p"] == "Select" and nd.get("cut") is not None and rng.chance(p):
            if any(c["p"] in HAS_Q and (c.get("q") or {}).get("kind") != "unweighted" for _, c in walk(nd["cut"])):
                nd["q"] = {"f": "one", "kind": "unweighted"}
    return spec
