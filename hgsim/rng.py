"""One integer decides everything: named forks of a single seed."""
import hashlib
import random


def mix(*parts):
    h = hashlib.sha256(("|".join(str(p) for p in parts)).encode()).digest()
    return int.from_bytes(h[:8], "big")


class Rng(random.Random):
    def __init__(self, seed):
        self._seed_value = seed
        super().__init__(seed)

    def fork(self, name):
        return Rng(mix(self._seed_value, name))

    def pick(self, seq):
        return seq[self.randrange(len(seq))]

    def chance(self, p):
        return self.random() < p

    def wpick(self, pairs):
        """pairs: list of (item, weight)."""
        tot = sum(w for _, w in pairs)
        r = self.random() * tot
        acc = 0.0
        for it, w in pairs:
            acc += w
            if r < acc:
                return it
        return pairs[-1][0]

    def subset(self, seq, p=0.5, at_least=0):
        out = [x for x in seq if self.random() < p]
        while len(out) < at_least and len(out) < len(seq):
            x = self.pick(seq)
            if x not in out:
                out.append(x)
        return out


def run_seed(verif_seed, prop, tier, index):
    return mix("hgsim", verif_seed, prop, tier, index)
