"""Independent description of the Histogrammar JSON format (DESIGN.md Appendix C).

Hand-written from the specification of each primitive; it does not import the
library.  Used for (a) the type-directed walk that localises differences and
evaluates the bookkeeping equations, (b) constructing value corruptions that stay
inside the format (C09), (c) constructing structural corruptions that are
guaranteed to be outside it (C15).
"""
import copy
import json
import math
import re

PRIMS = ["Count", "Sum", "Average", "Deviate", "Minimize", "Maximize", "Bag", "Bin", "SparselyBin",
         "CentrallyBin", "IrregularlyBin", "Stack", "Fraction", "Select", "Categorize", "Label",
         "UntypedLabel", "Index", "Branch"]

SPECIALS = ("nan", "inf", "-inf")

# descriptors -----------------------------------------------------------------
# ("num",)            JSON number or "nan"/"inf"/"-inf"
# ("entries",)        the same, must not be negative
# ("str",)            string
# ("name",)           string or null (optional keys only)
# ("type",)           registered primitive name
# ("frag", key, sup)  fragment of the primitive named by sibling key `key`
# ("list", d, min)    list of d
# ("map", d, kind)    dict of d; kind "int" (keys are decimal integers) or "str"
# ("obj", req, opt)   inline object
# ("tagged",)         {"type": T, "data": frag(T)}
# ("bagvalues",)      list of {"w": num, "v": num | str | [num...]}
# ("range",)          "N" | "N<k>" | "S"

NUM = ("num",)
ENT = ("entries",)
NAME = ("name",)


def _leaf(field):
    return {"req": {"entries": ENT, field: NUM}, "opt": {"name": NAME}}


G = {
    "Count": None,  # a bare number
    "Sum": _leaf("sum"),
    "Average": _leaf("mean"),
    "Minimize": _leaf("min"),
    "Maximize": _leaf("max"),
    "Deviate": {"req": {"entries": ENT, "mean": NUM, "variance": NUM}, "opt": {"name": NAME}},
    "Bag": {"req": {"entries": ENT, "values": ("bagvalues",), "range": ("range",)}, "opt": {"name": NAME}},
    "Bin": {
        "req": {
            "low": NUM, "high": NUM, "entries": ENT,
            "values:type": ("type",), "values": ("list", ("frag", "values:type", True), 1),
            "underflow:type": ("type",), "underflow": ("frag", "underflow:type", False),
            "overflow:type": ("type",), "overflow": ("frag", "overflow:type", False),
            "nanflow:type": ("type",), "nanflow": ("frag", "nanflow:type", False),
        },
        "opt": {"name": NAME, "values:name": NAME},
    },
    "SparselyBin": {
        "req": {
            "binWidth": NUM, "entries": ENT, "bins:type": ("type",),
            "bins": ("map", ("frag", "bins:type", True), "int"),
            "nanflow:type": ("type",), "nanflow": ("frag", "nanflow:type", False), "origin": NUM,
        },
        "opt": {"name": NAME, "bins:name": NAME},
    },
    "CentrallyBin": {
        "req": {
            "entries": ENT, "bins:type": ("type",),
            "bins": ("list", ("obj", {"center": NUM, "data": ("frag", "bins:type", True)}, {}), 2),
            "nanflow:type": ("type",), "nanflow": ("frag", "nanflow:type", False),
        },
        "opt": {"name": NAME, "bins:name": NAME},
    },
    "IrregularlyBin": {
        "req": {
            "entries": ENT, "bins:type": ("type",),
            # (toJson always writes the bin that starts at -inf: a document without any bin is not a serialisation)
            "bins": ("list", ("obj", {"atleast": NUM, "data": ("frag", "bins:type", True)}, {}), 1),
            "nanflow:type": ("type",), "nanflow": ("frag", "nanflow:type", False),
        },
        "opt": {"name": NAME, "bins:name": NAME},
    },
    "Fraction": {
        "req": {"entries": ENT, "sub:type": ("type",), "numerator": ("frag", "sub:type", True),
                "denominator": ("frag", "sub:type", True)},
        "opt": {"name": NAME, "sub:name": NAME},
    },
    "Select": {
        "req": {"entries": ENT, "sub:type": ("type",), "data": ("frag", "sub:type", False)},
        "opt": {"name": NAME},
    },
    "Categorize": {
        "req": {"entries": ENT, "bins:type": ("type",), "bins": ("map", ("frag", "bins:type", True), "str")},
        "opt": {"name": NAME, "bins:name": NAME},
    },
    "Label": {
        "req": {"entries": ENT, "sub:type": ("type",), "data": ("map", ("frag", "sub:type", False), "str1")},
        "opt": {},
    },
    "Index": {
        "req": {"entries": ENT, "sub:type": ("type",), "data": ("list", ("frag", "sub:type", False), 1)},
        "opt": {},
    },
    "UntypedLabel": {"req": {"entries": ENT, "data": ("map", ("tagged",), "str")}, "opt": {}},
    "Branch": {"req": {"entries": ENT, "data": ("list", ("tagged",), 1)}, "opt": {}},
}
G["Stack"] = G["IrregularlyBin"]


def is_num(v):
    # booleans count as numbers: Python's bool is a numbers.Real and the library's documented contract for quantities is
    # "boolean or number" (a Maximize filled with True serialises max as true); C15 never *uses* a bool as a replacement
    return isinstance(v, (int, float)) or (isinstance(v, str) and v in SPECIALS)


def num(v):
    """decode a document number"""
    if v == "nan":
        return math.nan
    if v == "inf":
        return math.inf
    if v == "-inf":
        return -math.inf
    return float(v)


def entries_of(ptype, frag):
    if ptype == "Count":
        return num(frag)
    return num(frag["entries"])


# --------------------------------------------------------------------------- walk


def children(ptype, frag):
    """[(path, child type, child fragment)] for the direct children of a fragment.

    ``path`` is the list of keys / indices leading from ``frag`` to the child
    fragment."""
    out = []
    g = G[ptype]
    if g is None:
        return out
    for key, d in g["req"].items():
        if key not in frag:
            continue
        _children_of(d, frag, frag[key], [key], out)
    return out


def _children_of(d, parent, val, path, out):
    k = d[0]
    if k == "frag":
        out.append((path, parent[d[1]], val))
    elif k == "list":
        for i, x in enumerate(val):
            _children_of(d[1], parent, x, path + [i], out)
    elif k == "map":
        for kk in sorted(val):
            _children_of(d[1], parent, val[kk], path + [kk], out)
    elif k == "obj":
        for kk, dd in d[1].items():
            if kk in val:
                _children_of(dd, parent, val[kk], path + [kk], out)
    elif k == "tagged":
        out.append((path + ["data"], val["type"], val["data"]))


def walk(ptype, frag, path=()):
    """Preorder (path, type, fragment)."""
    yield list(path), ptype, frag
    for p, ct, cf in children(ptype, frag):
        yield from walk(ct, cf, tuple(path) + tuple(p))


def get_path(doc, path):
    x = doc
    for k in path:
        x = x[k]
    return x


def set_path(doc, path, value):
    x = doc
    for k in path[:-1]:
        x = x[k]
    x[path[-1]] = value


def del_path(doc, path):
    x = doc
    for k in path[:-1]:
        x = x[k]
    del x[path[-1]]


# --------------------------------------------------------------------------- validation


def valid(ptype, frag):
    """Is the fragment inside the format?  (Used to self-test the grammar against
    every document the library emits, and to confirm that C15 mutants are outside.)"""
    try:
        return _valid(ptype, frag)
    except (KeyError, TypeError, IndexError, ValueError, AttributeError):
        return False


def _valid(ptype, frag):
    if ptype not in G:
        return False
    g = G[ptype]
    if g is None:
        return is_num(frag) and not (num(frag) < 0)
    if not isinstance(frag, dict):
        return False
    keys = set(frag)
    if not set(g["req"]) <= keys or not keys <= set(g["req"]) | set(g["opt"]):
        return False
    for key, d in g["opt"].items():
        if key in frag and not (frag[key] is None or isinstance(frag[key], str)):
            return False
    for key, d in g["req"].items():
        if not _valid_d(d, frag, frag[key]):
            return False
    if ptype == "Bin" and not (num(frag["low"]) < num(frag["high"])):
        return False
    if ptype == "SparselyBin" and not (num(frag["binWidth"]) > 0):
        return False
    return True


def _valid_d(d, parent, v):
    k = d[0]
    if k == "num":
        return is_num(v)
    if k == "entries":
        return is_num(v) and not (num(v) < 0)
    if k == "str":
        return isinstance(v, str)
    if k == "type":
        return isinstance(v, str) and v in G
    if k == "range":
        return isinstance(v, str) and re.fullmatch(r"S|N|N[1-9][0-9]*", v) is not None
    if k == "frag":
        t = parent[d[1]]
        return isinstance(t, str) and _valid(t, v)
    if k == "list":
        return isinstance(v, list) and len(v) >= d[2] and all(_valid_d(d[1], parent, x) for x in v)
    if k == "map":
        if not isinstance(v, dict):
            return False
        if d[2] == "int":
            for kk in v:
                if str(int(kk)) != kk:  # "03", " 3", "+3" are other spellings of 3: two of them would collide
                    return False
        if d[2] == "str1" and len(v) < 1:
            return False
        return all(_valid_d(d[1], parent, x) for x in v.values())
    if k == "obj":
        if not isinstance(v, dict) or set(v) != set(d[1]):
            return False
        return all(_valid_d(dd, parent, v[kk]) for kk, dd in d[1].items())
    if k == "tagged":
        return isinstance(v, dict) and set(v) == {"type", "data"} and isinstance(v["type"], str) and _valid(v["type"], v["data"])
    if k == "bagvalues":
        if not isinstance(v, list):
            return False
        for x in v:
            if not isinstance(x, dict) or set(x) != {"w", "v"} or not is_num(x["w"]):
                return False
            vv = x["v"]
            rng_ = parent.get("range") if isinstance(parent, dict) else None
            if rng_ == "S":
                ok = isinstance(vv, str)
            elif rng_ == "N":
                ok = is_num(vv)
            elif isinstance(rng_, str) and rng_[1:].isdigit():
                ok = isinstance(vv, list) and len(vv) == int(rng_[1:]) and all(is_num(t) for t in vv)
            else:
                ok = False
            if not ok:
                return False
        keys = [json.dumps(x["v"], sort_keys=True) for x in v]
        return len(set(keys)) == len(keys)  # one entry per value
    raise ValueError(d)


SPEC_VERSION = (1, 1)


def version_ok(v):
    """readable if the document's (major, minor) specification version is not newer than the implementation's"""
    if not isinstance(v, str):
        return False
    try:
        parts = [int(x) for x in v.replace("-", ".").split(".")]
    except ValueError:
        return False
    if len(parts) < 2:
        return False
    return (SPEC_VERSION[0], SPEC_VERSION[1]) >= (parts[0], parts[1])


def valid_document(doc):
    return (isinstance(doc, dict) and set(doc) == {"type", "data", "version"} and version_ok(doc["version"])
            and isinstance(doc["type"], str) and valid(doc["type"], doc["data"]))


# --------------------------------------------------------------------------- C15: structural mutants

VOCABULARY = ["entries", "data", "type", "sub:type", "bins", "values", "name", "w", "v", "center", "atleast", "nanflow", "low"]

JUNK = {"str": "x", "list": [], "dict": {}, "null": None, "numlist": [1.5], "strdict": {"x": "y"}, "numstr": "1.5", "infstr": "Infinity"}


def struct_mutants(doc):
    """Enumerate single-point structural mutations that are *outside* the format.

    Yields (description, mutated document).  Every mutant is invalid by
    construction; the caller additionally asserts ``not valid_document``."""
    # header
    for key in ("type", "data", "version"):
        m = copy.deepcopy(doc)
        del m[key]
        yield "hdr-delete:%s" % key, m
    m = copy.deepcopy(doc)
    m["type"] = "NoSuchPrimitive"
    yield "hdr-type-unknown", m
    for how in ("list", "dict", "null"):
        m = copy.deepcopy(doc)
        m["type"] = JUNK[how]
        yield "hdr-type-retype:%s" % how, m
    for bad in (17, None, ["1.0"], {"v": "1.0"}):
        m = copy.deepcopy(doc)
        m["version"] = bad
        yield "hdr-version-retype:%s" % type(bad).__name__, m
    for bad in ("99.99", "2.0", "1.%d" % (SPEC_VERSION[1] + 1), "%d.0" % (SPEC_VERSION[0] + 1), "1.9"):
        m = copy.deepcopy(doc)
        m["version"] = bad
        yield "hdr-version-incompatible:%s" % bad, m
    for extra in ("extra", "entries", "name"):
        m = copy.deepcopy(doc)
        m[extra] = 1.0 if extra != "name" else "x"
        yield "hdr-add-key:%s" % extra, m

    for path, ptype, frag in list(walk(doc["type"], doc["data"], ("data",))):
        g = G[ptype]
        where = "%s@%s" % (ptype, "/".join(str(p) for p in path))
        if g is None:
            for how in ("str", "list", "dict", "null", "numstr", "infstr"):
                m = copy.deepcopy(doc)
                set_path(m, path, JUNK[how])
                yield "retype-count:%s %s" % (how, where), m
            if is_num(frag):
                m = copy.deepcopy(doc)
                set_path(m, path, -1.5)
                yield "negative-entries %s" % where, m
            continue
        # the fragment itself retyped
        for how in ("str", "list", "null", "numlist"):
            m = copy.deepcopy(doc)
            set_path(m, path, JUNK[how])
            yield "retype-frag:%s %s" % (how, where), m
        m = copy.deepcopy(doc)
        set_path(m, path, 3.5)
        yield "retype-frag:num %s" % where, m
        # keys
        for key in g["req"]:
            m = copy.deepcopy(doc)
            del_path(m, path + [key])
            yield "delete-key:%s %s" % (key, where), m
        m = copy.deepcopy(doc)
        get_path(m, path)["bogus"] = 1
        yield "add-key %s" % where, m
        # a key that is legal elsewhere in the format is just as foreign here
        allowed = set(g["req"]) | set(g["opt"])
        for extra in VOCABULARY:
            if extra not in allowed:
                m = copy.deepcopy(doc)
                get_path(m, path)[extra] = copy.deepcopy(get_path(doc, ["data"])) if extra == "data" else 1.0
                yield "add-known-key:%s %s" % (extra, where), m
        for key in g["opt"]:
            for how, val in (("num", 3.5), ("list", []), ("dict", {})):
                m = copy.deepcopy(doc)
                get_path(m, path)[key] = val
                yield "retype-opt:%s:%s %s" % (key, how, where), m
        for key, d in g["req"].items():
            yield from _mut_d(doc, path + [key], d, key, where)
        if "entries" in g["req"]:
            m = copy.deepcopy(doc)
            set_path(m, path + ["entries"], -1.5)
            yield "negative-entries %s" % where, m


def _mut_d(doc, path, d, key, where):
    k = d[0]
    if k in ("num", "entries"):
        for how in ("str", "list", "dict", "null", "numstr", "infstr"):
            m = copy.deepcopy(doc)
            set_path(m, path, JUNK[how])
            yield "retype:%s:%s %s" % (key, how, where), m
    elif k in ("str", "range"):
        for how, val in (("num", 3.5), ("list", []), ("dict", {}), ("null", None)):
            m = copy.deepcopy(doc)
            set_path(m, path, val)
            yield "retype:%s:%s %s" % (key, how, where), m
        if k == "range":
            for bad in ("Q", "n", "N0", "SS", ""):
                m = copy.deepcopy(doc)
                set_path(m, path, bad)
                yield "rename-range:%s %s" % (bad or "empty", where), m
            cur = get_path(doc, path)
            holder = get_path(doc, path[:-1])
            if isinstance(holder, dict) and holder.get("values"):
                # another (well-formed) range than the one the stored values have
                for other in ("S", "N", "N2"):
                    if other != cur:
                        m = copy.deepcopy(doc)
                        set_path(m, path, other)
                        if not valid_document(m):  # e.g. N -> S stays well-formed when every value is spelled "nan" / "inf"
                            yield "rename-range:%s %s" % (other, where), m
    elif k == "type":
        m = copy.deepcopy(doc)
        set_path(m, path, "NoSuchPrimitive")
        yield "rename-type:%s %s" % (key, where), m
        for how, val in (("num", 3.5), ("list", []), ("null", None)):
            m = copy.deepcopy(doc)
            set_path(m, path, val)
            yield "retype:%s:%s %s" % (key, how, where), m
    elif k == "list":
        for how in ("str", "dict", "null"):
            m = copy.deepcopy(doc)
            set_path(m, path, JUNK[how])
            yield "retype:%s:%s %s" % (key, how, where), m
        m = copy.deepcopy(doc)
        set_path(m, path, 3.5)
        yield "retype:%s:num %s" % (key, where), m
        val = get_path(doc, path)
        if isinstance(val, list):
            if d[2] >= 1:
                m = copy.deepcopy(doc)
                set_path(m, path, [])
                yield "empty-list:%s %s" % (key, where), m
            e = d[1]
            for i in range(len(val)):
                if e[0] in ("obj", "tagged"):
                    # malformed element: truncate (drop a key), retype, add a key
                    for how in ("str", "list", "null"):
                        m = copy.deepcopy(doc)
                        set_path(m, path + [i], JUNK[how])
                        yield "elem-retype:%s[%d]:%s %s" % (key, i, how, where), m
                    m = copy.deepcopy(doc)
                    set_path(m, path + [i], 3.5)
                    yield "elem-retype:%s[%d]:num %s" % (key, i, where), m
                    for kk in sorted(val[i]) if isinstance(val[i], dict) else []:
                        m = copy.deepcopy(doc)
                        del_path(m, path + [i, kk])
                        yield "elem-truncate:%s[%d].%s %s" % (key, i, kk, where), m
                    m = copy.deepcopy(doc)
                    get_path(m, path + [i])["bogus"] = 1
                    yield "elem-add-key:%s[%d] %s" % (key, i, where), m
                    have = set(val[i]) if isinstance(val[i], dict) else set()
                    for extra in ("entries", "sub:type", "name", "w", "center", "atleast", "type"):
                        if extra not in have:
                            m = copy.deepcopy(doc)
                            get_path(m, path + [i])[extra] = 1.0
                            yield "elem-add-known-key:%s[%d]:%s %s" % (key, i, extra, where), m
                    if e[0] == "obj":
                        for kk, dd in e[1].items():
                            if dd[0] == "num":
                                for how in ("str", "list", "dict", "null"):
                                    m = copy.deepcopy(doc)
                                    set_path(m, path + [i, kk], JUNK[how])
                                    yield "elem-retype:%s[%d].%s:%s %s" % (key, i, kk, how, where), m
                    else:
                        m = copy.deepcopy(doc)
                        set_path(m, path + [i, "type"], "NoSuchPrimitive")
                        yield "elem-rename-type:%s[%d] %s" % (key, i, where), m
                        for how, v2 in (("num", 3.5), ("list", []), ("null", None)):
                            m = copy.deepcopy(doc)
                            set_path(m, path + [i, "type"], v2)
                            yield "elem-retype:%s[%d].type:%s %s" % (key, i, how, where), m
    elif k == "map":
        for how in ("str", "list", "null"):
            m = copy.deepcopy(doc)
            set_path(m, path, JUNK[how])
            yield "retype:%s:%s %s" % (key, how, where), m
        m = copy.deepcopy(doc)
        set_path(m, path, 3.5)
        yield "retype:%s:num %s" % (key, where), m
        val = get_path(doc, path)
        if isinstance(val, dict):
            if d[2] == "int" and val:
                kk = sorted(val)[0]
                m = copy.deepcopy(doc)
                mm = get_path(m, path)
                mm["notanint"] = mm.pop(kk)
                yield "map-key-not-int:%s %s" % (key, where), m
                for how, respell in (("leading-zero", lambda x: ("-0" + x[1:]) if x.startswith("-") else "0" + x), ("space", lambda x: " " + x),
                                     ("plus", lambda x: x if x.startswith("-") else "+" + x)):
                    nk = respell(kk)
                    if nk != kk and nk not in val:
                        m = copy.deepcopy(doc)
                        mm = get_path(m, path)
                        mm[nk] = mm.pop(kk)
                        yield "map-key-respelled:%s:%s %s" % (key, how, where), m
            if d[2] == "str1":
                m = copy.deepcopy(doc)
                set_path(m, path, {})
                yield "empty-map:%s %s" % (key, where), m
            if d[1][0] == "tagged":
                for kk in sorted(val):
                    for how in ("str", "list", "null"):
                        m = copy.deepcopy(doc)
                        set_path(m, path + [kk], JUNK[how])
                        yield "elem-retype:%s[%s]:%s %s" % (key, kk, how, where), m
                    for k2 in ("type", "data"):
                        m = copy.deepcopy(doc)
                        del_path(m, path + [kk, k2])
                        yield "elem-truncate:%s[%s].%s %s" % (key, kk, k2, where), m
                    m = copy.deepcopy(doc)
                    get_path(m, path + [kk])["bogus"] = 1
                    yield "elem-add-key:%s[%s] %s" % (key, kk, where), m
                    m = copy.deepcopy(doc)
                    set_path(m, path + [kk, "type"], "NoSuchPrimitive")
                    yield "elem-rename-type:%s[%s] %s" % (key, kk, where), m
                    for how, v2 in (("num", 3.5), ("list", []), ("null", None)):
                        m = copy.deepcopy(doc)
                        set_path(m, path + [kk, "type"], v2)
                        yield "elem-retype:%s[%s].type:%s %s" % (key, kk, how, where), m
    elif k == "bagvalues":
        for how in ("str", "dict"):
            m = copy.deepcopy(doc)
            set_path(m, path, JUNK[how])
            yield "retype:%s:%s %s" % (key, how, where), m
        m = copy.deepcopy(doc)
        set_path(m, path, 3.5)
        yield "retype:%s:num %s" % (key, where), m
        val = get_path(doc, path)
        if isinstance(val, list):
            for i in range(len(val)):
                for how in ("str", "list", "null"):
                    m = copy.deepcopy(doc)
                    set_path(m, path + [i], JUNK[how])
                    yield "elem-retype:%s[%d]:%s %s" % (key, i, how, where), m
                for kk in ("w", "v"):
                    m = copy.deepcopy(doc)
                    del_path(m, path + [i, kk])
                    yield "elem-truncate:%s[%d].%s %s" % (key, i, kk, where), m
                m = copy.deepcopy(doc)
                get_path(m, path + [i])["bogus"] = 1
                yield "elem-add-key:%s[%d] %s" % (key, i, where), m
                for how in ("str", "list", "dict", "null"):
                    m = copy.deepcopy(doc)
                    set_path(m, path + [i, "w"], JUNK[how])
                    yield "elem-retype:%s[%d].w:%s %s" % (key, i, how, where), m
                for how in ("dict", "null"):
                    m = copy.deepcopy(doc)
                    set_path(m, path + [i, "v"], JUNK[how])
                    yield "elem-retype:%s[%d].v:%s %s" % (key, i, how, where), m
                m = copy.deepcopy(doc)
                set_path(m, path + [i, "v"], [1.0, {"a": 1}])
                yield "elem-retype:%s[%d].v:listofdict %s" % (key, i, where), m
                vv = val[i].get("v") if isinstance(val[i], dict) else None
                for how, bad in (("str", "x"), ("num", 1.5), ("numlist", [1.5])):
                    if not ((how == "str" and isinstance(vv, str)) or (how == "num" and is_num(vv)) or (how == "numlist" and isinstance(vv, list))):
                        m = copy.deepcopy(doc)
                        set_path(m, path + [i, "v"], bad)
                        yield "elem-retype:%s[%d].v:%s %s" % (key, i, how, where), m
            if val:
                m = copy.deepcopy(doc)
                get_path(m, path).append(copy.deepcopy(val[0]))
                yield "elem-duplicate:%s[0] %s" % (key, where), m
    elif k == "frag":
        pass  # handled when the child fragment itself is visited
