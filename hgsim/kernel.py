"""Simulator kernel: the world (object heap, transports, disk), the step
interpreter, exception classification, trace digest.

A *case* is plain JSON: workload (specs, records) plus a concrete step list.  The
seeded generators in scenarios/ produce cases by running the scheduler over
abstract handles; ``World`` executes them against the real library.  Execution is
a pure function of (case, code of /repo), which is what makes replay exact.
"""
import hashlib
import io
import json
import os
import pickle
import traceback

import numpy as np

from . import REPO, gate, observe, spec as specmod


class HarnessError(Exception):
    """Something went wrong in the machinery itself: never a verdict."""


class RunTimeout(BaseException):
    """The per-run watchdog fired (a run normally takes milliseconds)."""


class Violation(Exception):
    def __init__(self, prop, culprit, op, kind, msg, step=None, detail=None):
        self.prop = prop
        self.culprit = culprit
        self.op = op
        self.kind = kind
        self.msg = msg
        self.step = step
        self.detail = detail
        super().__init__(self.signature + ": " + msg)

    @property
    def signature(self):
        return "%s|%s|%s|%s" % (self.prop, self.culprit, self.op, self.kind)

    def to_json(self):
        return {"signature": self.signature, "message": self.msg, "step": self.step, "detail": self.detail}


_LIBDIR = os.path.realpath(os.path.join(REPO, "histogrammar")) + os.sep
_SIMDIR = os.path.dirname(os.path.realpath(__file__)) + os.sep


def exception_origin(exc):
    """'library' if any frame of the traceback is inside /repo/histogrammar, 'gate' for an
    injected fault, else 'harness'."""
    if isinstance(exc, (gate.InjectedFault, gate.InjectedAbort)):
        return "gate"
    if isinstance(exc, (TypeError, ValueError)) and ("is not JSON serializable" in str(exc) or "Out of range float values" in str(exc)):
        # json.dumps of a document the library produced: the document is at fault, not the harness
        return "library"
    if isinstance(exc, (TypeError, AttributeError, pickle.PicklingError)) and ("cannot pickle" in str(exc) or "Can't pickle" in str(exc)):
        # pickle.dumps of an aggregator: the pickler works with what the library's __reduce__ / __getstate__ handed it
        # (no library frame is on the stack any more when it finds a module among the globals of a function)
        return "library"
    tb = traceback.extract_tb(exc.__traceback__)
    for fr in tb:
        if os.path.realpath(fr.filename).startswith(_LIBDIR):
            return "library"
    return "harness"


def exc_site(exc):
    """(primitive-ish module name, function) of the innermost library frame."""
    tb = traceback.extract_tb(exc.__traceback__)
    site = None
    if "JSON serializable" in str(exc) or "Out of range float values" in str(exc):
        return ("toJson", "strict-json")
    if "cannot pickle" in str(exc) or "Can't pickle" in str(exc):
        site = ("pickle", "dumps")
    for fr in tb:
        fn = os.path.realpath(fr.filename)
        if fn.startswith(_LIBDIR):
            site = (os.path.basename(fn)[:-3], fr.name)
    return site or ("?", "?")


class Outcome:
    """Result of one library call: a value or a classified exception."""

    def __init__(self, value=None, exc=None):
        self.value = value
        self.exc = exc
        self.origin = exception_origin(exc) if exc is not None else None

    @property
    def ok(self):
        return self.exc is None

    def describe(self):
        if self.exc is None:
            return "ok"
        return "%s(%s) from %s" % (type(self.exc).__name__, str(self.exc)[:120], self.origin)


def call(fn, *a, **k):
    """Run one public library call; harness-origin exceptions propagate as HarnessError."""
    try:
        return Outcome(value=fn(*a, **k))
    except (KeyboardInterrupt, SystemExit, HarnessError, Violation, RunTimeout):
        raise
    except BaseException as e:  # noqa
        out = Outcome(exc=e)
        if out.origin == "harness":
            raise HarnessError("exception outside the library: %s\n%s" % (
                repr(e), "".join(traceback.format_exception(type(e), e, e.__traceback__)))) from e
        return out


# --------------------------------------------------------------------------- SimDisk (surface S5)


class SimFile(io.StringIO):
    def __init__(self, disk, name, mode, initial="", encoding=None, errors=None):
        super().__init__(initial if "r" in mode else "")
        self._disk, self._name, self._mode = disk, name, mode
        self._done = False
        # a text file encodes what is written to it: like the real thing, refuse what the encoding cannot express
        self._encoding, self._errors = encoding or "utf-8", errors or "strict"
        disk.open_handles += 1

    def write(self, text):
        text.encode(self._encoding, self._errors)
        return super().write(text)

    def _flush_to_disk(self):
        if not self._done:
            self._done = True
            self._disk.open_handles -= 1
            if "w" in self._mode:
                self._disk.commit(self._name, self.getvalue())

    def close(self):
        self._flush_to_disk()
        self._disk.closed_explicitly += 1
        super().close()

    def __del__(self):
        # the library never closes the handle it opens; CPython's reference counting finalises it
        try:
            self._flush_to_disk()
        except Exception:
            pass


class SimDisk:
    """In-memory files with a volatile and a durable layer and injectable faults."""

    def __init__(self):
        self.durable = {}
        self.open_handles = 0
        self.closed_explicitly = 0
        self.fault = None  # ("torn", keep_fraction) | ("lost",) | ("bitrot", pos)
        self.fired = []

    def commit(self, name, text):
        f = self.fault
        if f is not None and f[0] == "torn":
            keep = int(len(text) * f[1])
            text = text[:keep]
            self.fired.append("torn_write")
            self.fault = None
        elif f is not None and f[0] == "lost":
            self.fired.append("lost_write")
            self.fault = None
            return
        self.durable[name] = text

    def read(self, name):
        if name not in self.durable:
            raise FileNotFoundError(name)
        text = self.durable[name]
        f = self.fault
        if f is not None and f[0] == "short":
            text = text[: int(len(text) * f[1])]
            self.fired.append("short_read")
            self.fault = None
        return text


class SimPath:
    disk = None

    def __init__(self, name):
        self.name = str(name)

    def open(self, mode="r", buffering=-1, encoding=None, errors=None, newline=None):
        if "r" in mode:
            return SimFile(SimPath.disk, self.name, mode, SimPath.disk.read(self.name), encoding, errors)
        return SimFile(SimPath.disk, self.name, mode, "", encoding, errors)


# --------------------------------------------------------------------------- data boxes (surface S8)


def make_box(records, rows, box, rename=None, narrow=False):
    """Column container for fill.numpy built from the rows of the record table (``rename``: other column names)."""
    recs = [records[i] for i in rows]
    cols = {
        "x": np.array([r["x"] for r in recs], dtype=np.float64),
        "y": np.array([r["y"] for r in recs], dtype=np.float64),
        "c": np.array([float(r["c"]) for r in recs], dtype=np.float64),
        "b": np.array([bool(r["b"]) for r in recs], dtype=bool),
        # a column of strings; with a missing value (None / NaN) in it, a column of objects as pandas would hold it
        "s": (np.array([r["s"] for r in recs], dtype=object) if any(r["s"] is None or r["s"] != r["s"] for r in recs)
              else np.array([r["s"] for r in recs], dtype=str)) if recs else np.array([], dtype=str),
        "t": np.array([r["t"] for r in recs], dtype=str) if recs else np.array([], dtype=str),
    }
    if narrow:
        # single-precision columns (detector read-out, image data) - only when every value survives the conversion, so that
        # the row-wise executor, which sees Python floats, works on exactly the same numbers
        for k_ in ("x", "y"):
            a32 = cols[k_].astype(np.float32)
            if np.array_equal(a32.astype(np.float64), cols[k_], equal_nan=True):
                cols[k_] = a32
    if rename:
        cols = {rename.get(k, k): v for k, v in cols.items()}
    if box == "dict":
        return cols
    if box == "frame":
        import pandas as pd

        d = dict(cols)
        for k_ in ("s", "t"):
            k_ = (rename or {}).get(k_, k_)
            d[k_] = pd.Series(list(cols[k_]), dtype=object)
        return pd.DataFrame(d)
    if box == "rec":
        names = list(cols)
        return np.rec.fromarrays([cols[n] for n in names], names=names)
    raise HarnessError("unknown box %r" % box)


def box_fingerprint(b):
    """Content hash of every column (to detect in-place modification of caller arrays)."""
    h = hashlib.sha256()
    if isinstance(b, dict):
        names = sorted(b)
        get = lambda n: b[n]  # noqa
    elif hasattr(b, "columns"):
        names = sorted(b.columns)
        get = lambda n: b[n].values  # noqa
    else:
        names = sorted(b.dtype.names)
        get = lambda n: b[n]  # noqa
    for n in names:
        a = np.asarray(get(n))
        h.update(n.encode())
        h.update(str(a.dtype).encode())
        h.update(repr(a.tolist()).encode())
    return h.hexdigest()[:16]


# --------------------------------------------------------------------------- the world


class World:
    def __init__(self, case):
        self.case = case
        self.specs = case.get("specs") or ([case["spec"]] if "spec" in case else [])
        self.records = [specmod.dec_record(r) for r in case.get("records", [])]
        self.heap = {}  # handle -> aggregator
        self.meta = {}  # handle -> dict(spec=k, cover=[(rec, w)], immutable=bool, ...)
        self.disk = SimDisk()
        self.stats = {}
        self.trace = hashlib.sha256()
        self.nsteps = 0
        self.schedule_shape = []
        self.state_hashes = set()
        gate.STATE.reset()
        SimPath.disk = self.disk
        import histogrammar.defs as defs

        self._defs = defs
        self._orig_path = defs.Path
        defs.Path = SimPath

    def close(self):
        self._defs.Path = self._orig_path
        gate.STATE.reset()

    # ------------------------------------------------------------------ bookkeeping
    def bump(self, key, n=1):
        self.stats[key] = self.stats.get(key, 0) + n

    def put(self, handle, obj, **meta):
        self.heap[handle] = obj
        self.meta[handle] = meta

    def has(self, *handles):
        return all(h in self.heap for h in handles)

    def obs(self, handle):
        return observe.observe(self.heap[handle])

    def snapshot(self):
        """{handle: observation hash} of every live object (the write-set monitor's view)."""
        out = {}
        for h in sorted(self.heap):
            o = call(observe.observe, self.heap[h])
            out[h] = observe.obs_hash(o.value) if o.ok else "exc:" + type(o.exc).__name__
        return out

    def record_step(self, step, snap=None):
        self.nsteps += 1
        self.trace.update(json.dumps(step, sort_keys=True).encode())
        self.schedule_shape.append((step.get("actor", ""), step.get("op", "")))
        if snap is None:
            snap = self.snapshot()
        for h in sorted(snap):
            self.trace.update(("%s=%s;" % (h, snap[h])).encode())
            self.state_hashes.add(snap[h])
        return snap

    def digest(self):
        return self.trace.hexdigest()[:24]

    # ------------------------------------------------------------------ generic ops
    def build(self, k):
        # with the knob vary_label_order every other construction writes Label / UntypedLabel keys in another order
        self._nbuilds = getattr(self, "_nbuilds", 0) + 1
        mode = ["spec", "reversed", "sorted"][self._nbuilds % 3] if self.case.get("vary_label_order") else "spec"
        specmod.BUILD_OPTS["label_order"] = mode
        if mode != "spec":
            self.bump("probe_label_order_varied")
        try:
            return call(specmod.build, self.specs[k])
        finally:
            specmod.BUILD_OPTS["label_order"] = "spec"

    def ship(self, obj, wire, name="f"):
        """Move an aggregator through a transport; returns Outcome(new object)."""
        import histogrammar as hg

        if wire == "ref":
            return Outcome(value=obj)
        if wire == "pickle":
            o = call(pickle.dumps, obj)
            if not o.ok:
                return o
            self.bump("wire_pickle")
            return call(pickle.loads, o.value)
        if wire == "json":
            o = call(obj.toJson)
            if not o.ok:
                return o
            self.bump("wire_json")
            if self.case.get("json_sort_keys"):
                # a transport that writes canonical JSON (sorted keys): same document, other order of the members
                import json as _json

                return call(lambda: hg.Factory.fromJson(_json.loads(_json.dumps(o.value, sort_keys=True))))
            return call(hg.Factory.fromJson, o.value)
        if wire == "jsonstr":
            o = call(obj.toJsonString)
            if not o.ok:
                return o
            self.bump("wire_jsonstr")
            return call(hg.Factory.fromJsonString, o.value)
        if wire == "file":
            o = call(obj.toJsonFile, name)
            if not o.ok:
                return o
            self.bump("wire_file")
            return call(hg.Factory.fromJsonFile, name)
        raise HarnessError("unknown wire %r" % wire)


def weights_arg(records, rows, wspec, row_weights):
    """weights argument of fill.numpy: 'one' -> default, number -> scalar, 'array' -> per-row array."""
    if wspec == "one":
        return None
    if wspec == "array":
        return np.array([float(w) for w in row_weights], dtype=np.float64)  # "nan" decodes to NaN
    return float(wspec)
