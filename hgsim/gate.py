"""The seam through which every generated quantity function passes (surface S1).

Quantity functions are real ``types.FunctionType`` objects built from source such
as ``lambda d: _gate(17, d["x"])``.  Their only global is ``_gate`` (or
``_gate2``), a module-level function, so they survive ``UserFcn.__reduce__``.
The nemesis arms faults here: at node N the next call raises, or returns a
value of the wrong type.
"""
import numpy as np


class InjectedFault(Exception):
    """Raised by an armed gate (q_raise)."""


class InjectedAbort(BaseException):
    """Raised by an armed gate (q_raisebase): not an Exception - what a bare ``except:`` still catches (a cancelled task,
    an interrupt, a user's own BaseException subclass)."""


class _State:
    def __init__(self):
        self.armed = {}  # node -> mode ("raise" | "badtype")
        self.fired = []  # list of (node, mode)
        self.calls = 0

    def reset(self):
        self.armed = {}
        self.fired = []
        self.calls = 0


STATE = _State()


class _Bad:
    """A value that is no number, no string, no bool, no sequence."""

    def __repr__(self):
        return "<bad>"


BAD = _Bad()
# a value that passes for a number at first sight (numpy registers timedelta64 as a signed integer, so it is a
# numbers.Real) but cannot take part in the arithmetic of an aggregator
BADNUM = np.timedelta64(5, "s")
BADCOMPLEX = complex(1.0, 2.0)  # a numbers.Number that is not a numbers.Real


def _unbox(v):
    # pandas Series -> ndarray, the way the library's own string quantities do it
    if not isinstance(v, np.ndarray) and hasattr(v, "values") and hasattr(v, "dtype"):
        return v.values
    return v


POISON = 7777.25  # a record value for which every gated quantity function fails - a *pure* failure, decided by the argument


def _poisoned(v):
    if isinstance(v, float):
        return v == POISON
    if isinstance(v, np.ndarray) and v.dtype.kind == "f":
        return bool((v == POISON).any())
    return False


def _gate(node, v):
    st = STATE
    st.calls += 1
    if _poisoned(_unbox(v)):
        raise InjectedFault("poisoned value reached node %d" % node)
    mode = st.armed.get(node)
    if mode is not None:
        st.fired.append((node, mode))
        if mode == "raise":
            raise InjectedFault("armed gate at node %d" % node)
        if mode == "raisebase":
            raise InjectedAbort("armed gate at node %d" % node)
        return BADNUM if mode == "badnum" else BADCOMPLEX if mode == "badcomplex" else BAD
    return _unbox(v)


def _gate2(node, a, b):
    st = STATE
    st.calls += 1
    mode = st.armed.get(node)
    if mode is not None:
        st.fired.append((node, mode))
        if mode == "raise":
            raise InjectedFault("armed gate at node %d" % node)
        if mode == "raisebase":
            raise InjectedAbort("armed gate at node %d" % node)
        return BADNUM if mode == "badnum" else BADCOMPLEX if mode == "badcomplex" else BAD
    a = _unbox(a)
    b = _unbox(b)
    if isinstance(a, np.ndarray):
        return np.stack([a, b], axis=1)
    return (a, b)


def _gate3(node, a, b, c):
    st = STATE
    st.calls += 1
    mode = st.armed.get(node)
    if mode is not None:
        st.fired.append((node, mode))
        if mode == "raise":
            raise InjectedFault("armed gate at node %d" % node)
        if mode == "raisebase":
            raise InjectedAbort("armed gate at node %d" % node)
        return BADNUM if mode == "badnum" else BADCOMPLEX if mode == "badcomplex" else BAD
    a, b, c = _unbox(a), _unbox(b), _unbox(c)
    if isinstance(a, np.ndarray):
        return np.stack([a, b, c], axis=1)
    return (a, b, c)


def make_lambda(node, field):
    """A fresh lambda reading one record field through the gate."""
    if field == "xy":
        src = 'lambda d: _gate2(%d, d["x"], d["y"])' % node
        return eval(src, {"_gate2": _gate2})
    if field == "xyc":
        src = 'lambda d: _gate3(%d, d["x"], d["y"], d["c"])' % node
        return eval(src, {"_gate3": _gate3})
    src = 'lambda d: _gate(%d, d["%s"])' % (node, field)
    return eval(src, {"_gate": _gate})


def make_def(node, field, fname):
    """A named ``def`` function (UserFcn takes its __name__ as the quantity name)."""
    if field == "xy":
        ns = {"_gate2": _gate2}
        exec('def %s(d):\n    return _gate2(%d, d["x"], d["y"])\n' % (fname, node), ns)
    elif field == "xyc":
        ns = {"_gate3": _gate3}
        exec('def %s(d):\n    return _gate3(%d, d["x"], d["y"], d["c"])\n' % (fname, node), ns)
    else:
        ns = {"_gate": _gate}
        exec('def %s(d):\n    return _gate(%d, d["%s"])\n' % (fname, node, field), ns)
    return ns[fname]
