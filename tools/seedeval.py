#!/venv/bin/python
"""tools/seedeval.py <worktree> <PROP> <bugdir-name> [--all]
Confirms a seeded change (demo fails with it / passes without, baseline tests still pass), runs the checks against the
patched worktree (VERIF_REPO), stores everything under /verif/seeded/<PROP>-<bug>/ and leaves the worktree pristine."""
import json, os, re, shutil, subprocess, sys, time
wt, prop, bug = sys.argv[1:4]
run_all = "--all" in sys.argv
V = "/verif"
src = os.path.join(wt, "_seed", bug)
PROPS = ["C01","C02","C03","C04","C05","C06","C07","C08","C09","C10","C11","C12","C14","C15","C16","C17"]
def sh(cmd, cwd=None, env=None, timeout=3000):
    p = subprocess.run(cmd, shell=True, cwd=cwd, env=env, capture_output=True, text=True, timeout=timeout)
    return p.returncode, p.stdout + p.stderr
def demo():
    return sh("/venv/bin/python _seed/%s/demo.py" % bug, cwd=wt, timeout=600)[0]
sh("git checkout -- histogrammar", cwd=wt)
meta = {"property": prop, "source": "independent sub-agent given only the property text", "worktree": wt}
meta["demo_exit_pristine"] = demo()
rc, out = sh("git apply _seed/%s/patch.diff" % bug, cwd=wt)
if rc != 0:
    print("PATCH DOES NOT APPLY", out); sys.exit(2)
meta["demo_exit_patched"] = demo()
rc, out = sh("%s/bin/baseline %s" % (V, wt), timeout=1500)
meta["baseline"] = out.strip().splitlines()[0] if out.strip() else "?"
meta["baseline_ok"] = rc == 0
det = {}
order = [prop] + ([p for p in PROPS if p != prop] if run_all else [])
for p in order:
    env = dict(os.environ, VERIF_REPO=wt)
    extra = "" if p == prop else " --runs %d" % max(200, json.load(open(os.path.join(V, "evidence", p + ".json")))["coverage"]["seeds"]["count"] // 4)
    t0 = time.time()
    rc, out = sh("bin/check %s --tier quick --no-evidence%s" % (p, extra), cwd=V, env=env)
    sigs = re.findall(r"signature=(\S+)", out)
    det[p] = {"exit": rc, "signatures": sorted(set(sigs))[:12], "wall_s": round(time.time() - t0, 1)}
    print("  %s exit=%d %s" % (p, rc, sorted(set(sigs))[:4]))
sh("git checkout -- histogrammar", cwd=wt)
meta["checks"] = det
meta["detected_by"] = [p for p in order if det[p]["exit"] == 1]
meta["what_i_ran"] = ["demo.py on pristine and patched worktree", "bin/baseline <worktree> (79 stable tests of BASELINE.json)",
                      "bin/check <ID> --tier quick --no-evidence with VERIF_REPO=<patched worktree>"]
notes = open(os.path.join(src, "notes.md")).read() if os.path.exists(os.path.join(src, "notes.md")) else ""
meta["needs_to_manifest"] = notes
dst = os.path.join(V, "seeded", "%s-%s" % (prop, bug))
os.makedirs(dst, exist_ok=True)
for f in ("patch.diff", "demo.py", "notes.md"):
    if os.path.exists(os.path.join(src, f)):
        shutil.copy(os.path.join(src, f), dst)
ok = meta["demo_exit_pristine"] == 0 and meta["demo_exit_patched"] == 1 and meta["baseline_ok"]
meta["confirmed"] = ok
json.dump(meta, open(os.path.join(dst, "meta.json"), "w"), indent=1)
print("%s-%s confirmed=%s demo %s->%s baseline=%s detected_by=%s" % (prop, bug, ok, meta["demo_exit_pristine"], meta["demo_exit_patched"], meta["baseline"], meta["detected_by"]))
