#!/bin/bash
# tools/sweep.sh "<seeds>" [checks...]: quick tier of every check on the unchanged tree for several VERIF_SEED values (no evidence written)
seeds=${1:-"0 1 2"}; shift
checks=${@:-C01 C02 C03 C04 C05 C06 C07 C08 C09 C10 C11 C12 C14 C15 C16 C17}
cd /verif
for sd in $seeds; do for c in $checks; do
  VERIF_SEED=$sd timeout 1200 bin/check $c --tier quick --no-evidence 2>&1 | grep "signature=\|^$c \|HARNESS\|Error" | cut -c1-330 | sed "s/^/seed=$sd /"
done; done
echo SWEEP-DONE
