#!/venv/bin/python
"""Regenerate /verif/MANIFEST.json (kept valid at all times; validated against the schema before writing)."""
import json, os, sys
V = os.path.dirname(os.path.dirname(os.path.abspath(__file__)))
sys.path.insert(0, V)

CHECKS = {
 "C01": ("exploration", "5 C01", "seeded simulation of one aggregation job: partition of the data, executor speeds and crash/retry, arrival order and the pair / operand order chosen at every reduce step are drawn from the seed; every merge result is compared with an exact-rational reference model of the records it covers, plus identity / commutativity / associativity probes. A clean batch is evidence over the trees (<= 24-40 nodes), datasets and reduction schedules explored, not a proof.",
         "reference model hgsim/model.py is the specification; dyadic configurations only (exact fields compared with ==, mean/variance within a run-derived bound); RefWire only; operands are never touched after a merge"),
 "C02": ("exploration", "5 C02", "operation-by-operation refinement: two replicas receive one weighted stream through reordering wires; after every delivery the replica is compared with the exact reference model of what it has received, non-positive / NaN weights must change nothing, and the replicas must agree at the end. The simulator contributes the per-step model check and the permutations; the stream content is seeded sampling from the tree's critical alphabet.",
         "reference model is the specification (dyadic regime); in the awkward regime only order-independence and the weight gate are demanded"),
 "C03": ("exploration", "5 C03", "twin executors (per-row fill vs fill.numpy on seeded batches / weight forms / column containers) compared after every batch, input arrays fingerprinted before and after. The simulator contributes the batching schedule and twin comparison; rows are seeded sampling on edges, NaN, +-inf.",
         "comparison drops sparse bins / categories with zero weight; awkward regime ignores disagreements when a row lies within 4 ulps of an edge; no None among string categories in vector mode"),
 "C04": ("exploration", "5 C04", "pool history with seeded checkpoints through JSON string / dict / file on a simulated disk; strict json.dumps(allow_nan=False), fixpoint and == of two reloads are checked at every checkpoint, then original and replica get the same +, *, zero, copy, re-checkpoint operations in lock step; torn / short file contents must be rejected.",
         "same observation = exact on exact fields, run-derived tolerance on mean/variance; SimDisk replaces histogrammar.defs.Path"),
 "C05": ("exploration", "5 C05", "operation histories over a pool (fill, fill.numpy, +, +=, *, copy, JSON/file/pickle round trips) in dyadic and awkward configurations with 1-3 ulp probes around every edge; after every step the conservation equations of DESIGN.md B.2 are evaluated on every live object and the root's entries is compared with a scalar shadow of the weight given.",
         "no Count with non-identity transform; no equation for Select.cut / Fraction.numerator; equations checked to 64*eps*n relative"),
 "C06": ("exploration", "5 C06", "alias hunt: every result of a pure operation joins the pool and both results and sources keep being mutated in seeded interleavings; a write-set monitor compares the observation of every live object before and after every step (pure step: nothing changes; mutating step: only its target).",
         "sharing that is not observable through toJson() is not flagged; culprit named by an identity walk, verdict by observation only"),
 "C07": ("exploration", "5 C07", "iadd replica: a += b and a' = a' + b on two independently built replicas, with seeded continuations (fills of a and b, further merges, operands reloaded from JSON); identity of a, equality of replicas and the write set are checked after every step; a second profile drives the real fill.sparksql against a fake JVM converter over several frames and compares the driver with the reference model.",
         "the JVM peer is a Python stand-in (nothing learned about the Scala side); fake pyspark.sql.column installed only during that profile"),
 "C08": ("exploration", "5 C08", "every pool object carries its (record, weight) multiset; scaling multiplies the weights (or empties for f <= 0 / NaN) and after every operation - scaling, further fills of the scaled object, merges, wires - the object is compared with the exact reference model; algebraic probes (assoc, *1, *2, distributivity, restore) and hash / dumps / repr / zero on scaled objects.",
         "reference model is the specification; a Count with non-identity transform must refuse scaling (ContainerException) or match the model"),
 "C09": ("fault_enumeration", "5 C09", "per base state all single-point value corruptions of its serialised form that stay inside the format are enumerated and loaded with the real fromJson; whenever the normalised documents differ, ==, mirrored == and != must say so; clean replicas by copy / pickle / JSON must compare equal with tolerances 0 and 1e-12; mutable replicas diverge through delivery faults (duplicate, loss, weight swap). Exhaustive per base state over the listed corruption kinds, sampled over base states.",
         "ground truth is inequality of normalised toJson(); quantity names are not content; corrupted documents the library refuses are skipped"),
 "C10": ("fault_enumeration", "5 C10", "per base case (tree, reachable accumulator state) every single-point structural mutation of the tree is enumerated and the foreign partial is offered in the four forms acc+p, p+acc, acc+=p, p+=acc: each must raise and leave both operands' observations unchanged. Exhaustive per base case over the listed mutation kinds, sampled over base cases.",
         "any exception type counts as rejection; operands rebuilt from recorded fills before every attempt"),
 "C11": ("exploration", "5 C11", "ship by pickle at seeded points of a history (fresh, filled, merged, reloaded from JSON; lambda / def / string / named / cached / self-contained quantities); clone == original and identical observation at once, original unchanged by dumps, then lock-step row fills, vector fills, merges, re-clones with exact comparison after every step.",
         "an operation that raises on one side must raise on the other; fills of live trees with valid data must not raise at all"),
 "C12": ("fault_enumeration", "5 C12", "per base case (single-path tree, stream of <= 8 weighted records) every fault placement (stream position x quantity-bearing node x {raise, wrong type}) is enumerated, plus seeded multi-fault subsets: after each failing fill the root's observation must be identical to before, and the final aggregate must equal the exact model of the surviving records. Exhaustive per base case, sampled over base cases.",
         "only quantity functions fail; fan-out collections are outside the guarantee and not generated"),
 "C14": ("exploration", "5 C14", "make_histograms on a seeded DataFrame with ret_specs=True, then the frozen request on seeded row chunks merged with + in seeded order / grouping; entries = row count, frozen specs reproduce the binning, reduction = whole frame, each histogram = a tree built by the harness from the frozen specs and filled with fill.numpy, and df.equals(copy) for every frame touched.",
         "string columns excluded (as the property says); no NaT; zero-weight categories dropped before comparison"),
 "C15": ("fault_enumeration", "5 C15", "per base document every single-point structural mutation at every position (delete required key, add unknown key, retype to a JSON type not allowed there, unregistered type name, malformed list element, negative entries, bad version, torn text) is enumerated; each mutant is checked to be outside an independent hand-written grammar of the format and must make Factory.fromJson raise. Exhaustive per base document, sampled over documents.",
         "hgsim/grammar.py defines 'valid serialisation' and is self-tested against every document the library emits; bool never replaces a number"),
 "C16": ("exploration", "5 C16", "one aggregator object installed at two fillable positions through the public constructors (siblings, cousins, beside its own container or child), optionally after a history of its own (filled alone, used in another valid tree); every row / vector fill attempt must raise ContainerException and change nothing; control trees (separate objects, shared unfilled templates) must never be rejected.",
         "only constructors install the object; positions whose constructor copies its argument are control cases"),
 "C17": ("exploration", "5 C17", "all orders of named / cached / serializable on function, def and string; one cached wrapper shared by several nodes of two trees under a seeded interleaving of repeated / equal-copy / changed rows and batches, compared after every step with a twin that uses the plain function; string-expression trees vs equivalent-function trees over dict / attribute / scalar records in seeded order.",
         "the twin (plain function) defines the expected value; expression grammar avoids names that collide with math.*"),
}

TECH = {
 "exploration": "deterministic simulation: seeded scheduler over in-process actors (executors / reducer / wires / disk), oracle evaluated after every step; failures minimised by delta debugging and replayed from a concrete step list",
 "fault_enumeration": "deterministic simulation with exhaustive single-fault enumeration per seeded base case; failures minimised and replayed from a concrete case file",
}

m = {
 "version": 1,
 "setup_cmd": "/venv/bin/python -c \"import numpy, pandas, jsonschema, sys; sys.path.insert(0, '/repo'); import histogrammar\" && /venv/bin/python -m compileall -q hgsim",
 "hooks": {
  "guard": "HISTOGRAMMAR_VERIF",
  "enable": "no hooks exist: every seam the properties depend on is reachable from outside /repo (generated quantity functions, histogrammar.defs.Path, sys.modules['pyspark.sql.column'], module-level tolerances); see DESIGN.md section 7",
  "baseline_off_cmd": "cd /repo && env -u HISTOGRAMMAR_VERIF /venv/bin/python -m pytest -ra -q -p no:cacheprovider --timeout=900 --continue-on-collection-errors",
  "source_commits": [],
  "add_only": True,
 },
 "engines": [{"name": "hgsim", "path": "hgsim/", "serves_properties": sorted(CHECKS),
              "kind_free_text": "purpose-built deterministic simulator (seeded discrete-event scheduler, object heap, Ref/Pickle/Json/File/Jvm wires, SimDisk, gated quantity functions, exact-rational reference model, document grammar, ddmin minimiser); python 3.12, no third-party framework"}],
 "checks": [],
 "not_applicable": [{"property_id": "C13", "reason": "pure function of (configuration, contents, query arguments): no schedule, history, fault, clock or I/O for a simulator to decide; what depends on histories (contents are right after any history) is decided by C02/C05 (DESIGN.md section 6)"}],
 "notes": "Checks import histogrammar from /repo's working tree on every invocation (pure Python, nothing to build). Exit 0 held (KNOWN-FINDING lines possible), 1 VIOLATION, 3 HARNESS-ERROR. `bin/check selftest determinism|grammar|mutants` proves determinism / sensitivity of the machinery. Replay: bin/check <ID> --replay <file>.",
}
for pid in sorted(CHECKS):
    lvl, ref, text, note = CHECKS[pid]
    m["checks"].append({
        "property_id": pid,
        "quick_cmd": "bin/check %s --tier quick" % pid,
        "thorough_cmd": "bin/check %s --tier thorough" % pid,
        "evidence_file": "evidence/%s.json" % pid,
        "replay_cmd_template": "bin/check %s --replay {path}" % pid,
        "engine": "hgsim",
        "level_claimed": {"category": lvl, "text": text, "design_ref": "DESIGN.md section " + ref},
        "level_note": note,
        "technique": TECH[lvl],
    })
import jsonschema
sch = "/root/.vp/MANIFEST.schema.json"
if os.path.exists(sch):
    jsonschema.validate(m, json.load(open(sch)))
json.dump(m, open(os.path.join(V, "MANIFEST.json"), "w"), indent=1)
print("MANIFEST.json written with %d checks" % len(m["checks"]))
