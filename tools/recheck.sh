#!/bin/bash
# tools/recheck.sh <PROP> <bug> [check-id] [extra args]: apply /verif/seeded/<PROP>-<bug>/patch.diff in the scratch worktree
# /tmp/seed-<PROP>, run one quick check against it, and leave the worktree pristine.
P=$1; B=$2; C=${3:-$1}; shift; shift; shift
wt=/tmp/seed-$P
git -C $wt checkout -q -- histogrammar
git -C $wt apply /verif/seeded/$P-$B/patch.diff || { echo "PATCH DOES NOT APPLY"; exit 2; }
rm -f /verif/replays/$C-*.json
cd /verif && VERIF_REPO=$wt HGSIM_MAX_REPORT=4 timeout 1500 bin/check $C --tier quick --no-evidence "$@" 2>&1 | grep "signature=\|^$C \|HARNESS" | cut -c1-260 | head -8
git -C $wt checkout -q -- histogrammar
